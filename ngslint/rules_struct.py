"""E-PROTO, E-ATTR, E-EXIT, E-TABLE, E-OWN and small closed-world structural
rules (shared mutable state, optional-zero parameters, codec pass-through)."""
import ast
import re
import itertools

from .core import (ftext, closure_text, helper_closure, AnalysisError, dotted, norm, walk_local, const_int,
                   enclosing_stmt_map, stmts_of, block_always_raises,
                   calls_in, call_name, kwarg, PKG)
from .dataflow import (local_defs, names_in, closure_names, holds,
                       raise_guards)

# ---------------------------------------------------------------------
# E-PROTO
# ---------------------------------------------------------------------
DICT_METHODS = {
    "__setitem__": (2, 2), "__getitem__": (1, 1), "__delitem__": (1, 1),
    "__contains__": (1, 1), "__len__": (0, 0), "__iter__": (0, 0),
    "__bool__": (0, 0), "get": (1, 2), "pop": (1, 2), "keys": (0, 0),
    "values": (0, 0), "items": (0, 0), "setdefault": (1, 2),
    "update": (0, 1), "clear": (0, 0), "popitem": (0, 0), "copy": (0, 0),
}
BYTEARRAY_METHODS = {
    "__len__": (0, 0), "__iter__": (0, 0), "__add__": (1, 1),
    "__iadd__": (1, 1), "__getitem__": (1, 1), "__setitem__": (2, 2),
    "__bool__": (0, 0), "extend": (1, 1), "append": (1, 1),
    "__contains__": (1, 1), "__bytes__": (0, 0), "clear": (0, 0),
}
BUILTIN_TABLES = {"dict": DICT_METHODS, "bytearray": BYTEARRAY_METHODS}
FALLBACK = {"__iadd__": "__add__", "__bool__": "__len__"}
MUTATORS = {"dict": {"__setitem__", "update", "setdefault"},
            "bytearray": {"__iadd__", "__add__", "extend", "append"}}


def _arity(fn_node):
    a = fn_node.args
    pos = [x.arg for x in a.posonlyargs + a.args][1:]
    ndef = len(a.defaults)
    lo = len(pos) - ndef
    hi = len(pos) if a.vararg is None else 99
    return lo, hi


def _alt_ops(repo, module, class_name):
    """(ops table, description) offered by one alternative class name as
    written in `module` (a repo class or a builtin)."""
    if class_name in BUILTIN_TABLES:
        return dict(BUILTIN_TABLES[class_name]), "builtin %s" % class_name
    ci = repo.find_class(module, class_name)
    if ci is None:
        return None, "unknown class %s" % class_name
    own = {}
    for c in reversed(repo.mro(ci)):
        for name, f in c.methods.items():
            own[name] = _arity(f.node)
    ext = [b for b in repo.external_bases(ci) if b in BUILTIN_TABLES]
    if ext:
        base = ext[0]
        # does the class keep its data outside the base object?  It does if
        # it overrides a mutator without delegating to super().
        detached = False
        for c in repo.mro(ci):
            for mname in MUTATORS[base]:
                f = c.methods.get(mname)
                if f is not None and "super()" not in ftext(f):
                    detached = True
        if not detached:
            table = dict(BUILTIN_TABLES[base])
            table.update(own)
            return table, "%s (inherits %s storage)" % (class_name, base)
        return own, "%s (keeps its data outside the inherited %s: only " \
            "explicitly defined operations are valid)" % (class_name, base)
    return own, class_name


def _ops_on_attr(module, attr):
    """Operations applied anywhere in `module` to `<expr>.<attr>`."""
    ops = []   # (opname, nargs, node, function)

    def is_attr(n):
        return isinstance(n, ast.Attribute) and n.attr == attr

    for fn in module.functions.values():
        for n in walk_local(fn.node, include_root=False):
            if isinstance(n, ast.Subscript) and is_attr(n.value):
                if isinstance(n.ctx, ast.Store):
                    ops.append(("__setitem__", 2, n, fn))
                elif isinstance(n.ctx, ast.Del):
                    ops.append(("__delitem__", 1, n, fn))
                else:
                    ops.append(("__getitem__", 1, n, fn))
            elif isinstance(n, ast.Compare):
                for op, c in zip(n.ops, n.comparators):
                    if isinstance(op, (ast.In, ast.NotIn)) and is_attr(c):
                        ops.append(("__contains__", 1, n, fn))
            elif isinstance(n, ast.Call):
                f = n.func
                if isinstance(f, ast.Attribute) and is_attr(f.value):
                    ops.append((f.attr, len(n.args) + len(n.keywords), n, fn))
                elif isinstance(f, ast.Name) and n.args and is_attr(n.args[0]):
                    if f.id == "len":
                        ops.append(("__len__", 0, n, fn))
                    elif f.id in ("sorted", "list", "iter", "tuple", "set",
                                  "any", "all"):
                        ops.append(("__iter__", 0, n, fn))
                    elif f.id == "bool":
                        ops.append(("__bool__", 0, n, fn))
                    elif f.id in ("isinstance", "id", "type"):
                        pass
                    else:
                        ops.append(("<escapes:%s>" % f.id, 0, n, fn))
            elif isinstance(n, (ast.For, ast.comprehension)) and is_attr(n.iter):
                ops.append(("__iter__", 0, n.iter, fn))
            elif isinstance(n, ast.AugAssign) and is_attr(n.target):
                if isinstance(n.op, ast.Add):
                    ops.append(("__iadd__", 1, n, fn))
                else:
                    ops.append(("<augop>", 1, n, fn))
            elif isinstance(n, ast.BinOp) and isinstance(n.op, ast.Add) and \
                    (is_attr(n.left) or is_attr(n.right)):
                ops.append(("__add__", 1, n, fn))
            elif isinstance(n, (ast.If, ast.While)) and is_attr(n.test):
                ops.append(("__bool__", 0, n.test, fn))
            elif isinstance(n, ast.UnaryOp) and isinstance(n.op, ast.Not) \
                    and is_attr(n.operand):
                ops.append(("__bool__", 0, n, fn))
    return ops


def protocol_conformance(repo, col):
    rule = "E-PROTO"
    m = repo.module("sharded_file_accessor")
    init = repo.func("sharded_file_accessor", "MiniShard.__init__")
    pairs = {}
    cand = {}
    for st in stmts_of(init.node):
        if isinstance(st, (ast.Assign, ast.AnnAssign)):
            tgt = st.targets[0] if isinstance(st, ast.Assign) else st.target
            if not (isinstance(tgt, ast.Attribute) and
                    isinstance(tgt.value, ast.Name) and tgt.value.id == "self"
                    and st.value is not None):
                continue
            arms = (st.value.body, st.value.orelse) \
                if isinstance(st.value, ast.IfExp) else (st.value,)
            for arm in arms:
                if isinstance(arm, ast.Call) and call_name(arm):
                    lst = cand.setdefault(tgt.attr, [])
                    if call_name(arm) not in [x[0] for x in lst]:
                        lst.append((call_name(arm), arm))
    for attr, alts in cand.items():
        # an attribute bound to one of two implementations (conditional
        # expression or if/else arms)
        if len(alts) == 2 and all(
                nm == "dict" or repo.find_class(m, nm) is not None
                for nm, _ in alts):
            pairs[attr] = alts
    if len(pairs) < 2:
        col.add(rule + ".class", init, "two buffer implementations", True,
                "MiniShard.__init__ does not choose between two buffer "
                "implementations in a recognised form (found %s)"
                % sorted(pairs), undecided=True)
        return
    for attr, alts in sorted(pairs.items()):
        ops = _ops_on_attr(m, attr)
        for cname, ctor in alts:
            table, desc = _alt_ops(repo, m, cname)
            if table is None:
                col.add(rule + ".class", init, "%s()" % cname, True, desc,
                        undecided=True)
                continue
            # constructor: a detached drop-in must not be seeded through the
            # inherited initialiser
            if ctor.args or ctor.keywords:
                ok = "only explicitly defined" not in desc
                col.add(rule + ".ctor", init, norm(ctor), ok,
                        "" if ok else "%s is constructed with arguments, which "
                        "only fill the inherited (unused) storage" % cname,
                        node=ctor)
            for op, nargs, node, fn in ops:
                if op.startswith("<"):
                    col.add(rule + ".op", fn, "%s %s on .%s" % (cname, op, attr),
                            True, "operation not modelled", node=node,
                            undecided=True)
                    continue
                eff = op if op in table else FALLBACK.get(op)
                ok = eff in table
                why = ""
                if ok:
                    lo, hi = table[eff]
                    if not (lo <= nargs <= hi) and not op.startswith("__"):
                        ok = False
                        why = "%s.%s takes %d..%d argument(s), called with " \
                            "%d" % (cname, op, lo, hi, nargs)
                else:
                    why = "%s does not define %s; %s" % (cname, op, desc)
                col.add(rule + ".op", fn, "%s.%s/%d on .%s"
                        % (cname, op, nargs, attr), ok, why, node=node)
    # any other construction site of the detached classes with arguments
    for fn in m.functions.values():
        for c in calls_in(fn.node):
            nm = call_name(c)
            if nm in ("OnDiskBytesDict", "OnDiskByteArray") and \
                    (c.args or c.keywords) and fn is not init:
                table, desc = _alt_ops(repo, m, nm)
                ok = "only explicitly defined" not in desc
                col.add(rule + ".ctor", fn, norm(c)[:80], ok,
                        "" if ok else "%s(...) with arguments seeds only the "
                        "inherited storage that none of its operations read: "
                        "the passed entries are silently lost" % nm, node=c)
    # iteration of the byte arrays must yield bytes blocks: both alternatives
    # define __iter__ themselves
    for cname, _ in pairs.get("databytearray", []):
        ci = repo.find_class(m, cname)
        ok = ci is not None and "__iter__" in ci.methods
        col.add(rule + ".iter", init, "%s.__iter__" % cname, ok,
                "iteration yields bytes blocks for fp.write()" if ok else
                "%s does not define __iter__: iterating it yields ints, not "
                "bytes blocks" % cname)


# ---------------------------------------------------------------------
# E-ATTR: populated-before-lookup, shared mutable state
# ---------------------------------------------------------------------
def _self_attr(node):
    if isinstance(node, ast.Attribute) and isinstance(node.value, ast.Name) \
            and node.value.id == "self":
        return node.attr
    return None


def _is_empty_container(v):
    if isinstance(v, ast.Dict) and not v.keys:
        return True
    if isinstance(v, ast.Call) and call_name(v) in ("dict", "OrderedDict",
                                                    "collections.OrderedDict") \
            and not v.args and not v.keywords:
        return True
    return False


def populated_before_lookup(repo, col, module_shorts):
    rule = "E-ATTR.populated"
    n = 0
    for ms in module_shorts:
        m = repo.module(ms)
        for ci in m.classes.values():
            mro = repo.mro(ci)
            # attributes initialised to an empty dict somewhere in the MRO
            empties, aliases = set(), []
            inserters = {}
            for c in mro:
                for mname, f in c.methods.items():
                    for st in walk_local(f.node, include_root=False):
                        if isinstance(st, (ast.Assign, ast.AnnAssign)):
                            tgts = st.targets if isinstance(st, ast.Assign) \
                                else [st.target]
                            val = st.value
                            for t in tgts:
                                a = _self_attr(t)
                                if a and val is not None:
                                    if _is_empty_container(val):
                                        empties.add(a)
                                    elif _self_attr(val):
                                        aliases.append((a, _self_attr(val)))
                                    else:
                                        inserters.setdefault(a, []).append(f)
                                if isinstance(t, ast.Subscript):
                                    a2 = _self_attr(t.value)
                                    if a2:
                                        inserters.setdefault(a2, []).append(f)
                        elif isinstance(st, ast.Call) and \
                                isinstance(st.func, ast.Attribute) and \
                                st.func.attr in ("update", "setdefault") and \
                                _self_attr(st.func.value):
                            inserters.setdefault(_self_attr(st.func.value),
                                                 []).append(f)
            # union-find of aliases
            group = {a: {a} for a in empties | set(inserters)}
            for a, b in aliases:
                ga, gb = group.setdefault(a, {a}), group.setdefault(b, {b})
                u = ga | gb
                for x in u:
                    group[x] = u
            # lookups in methods defined or inherited
            seen_methods = {}
            for c in mro:
                for mname, f in c.methods.items():
                    seen_methods.setdefault(mname, f)
            # inserters of the subclasses: a base class may read state
            # that only its concrete subclasses fill
            sub_ins = {}
            for oc in repo.all_classes():
                if oc is ci or ci not in repo.mro(oc):
                    continue
                for mname, f in oc.methods.items():
                    for st in walk_local(f.node, include_root=False):
                        if isinstance(st, ast.Assign):
                            for t in st.targets:
                                if isinstance(t, ast.Subscript) and \
                                        _self_attr(t.value):
                                    sub_ins.setdefault(_self_attr(t.value),
                                                       []).append(f)
                        elif isinstance(st, ast.Call) and \
                                isinstance(st.func, ast.Attribute) and \
                                st.func.attr in ("update", "setdefault") and \
                                _self_attr(st.func.value):
                            sub_ins.setdefault(_self_attr(st.func.value),
                                               []).append(f)
            for mname, f in sorted(seen_methods.items()):
                looked = {}
                # keys drawn from the container itself: the lookup cannot miss
                own_keys = set()
                for node in walk_local(f.node, include_root=False):
                    its = []
                    if isinstance(node, (ast.For, ast.comprehension)):
                        its = [(node.target, node.iter)]
                    for tg, it in its:
                        src = {_self_attr(x) for x in ast.walk(it)
                               if _self_attr(x)}
                        if isinstance(tg, ast.Name):
                            for a_ in src:
                                own_keys.add((tg.id, a_))
                for node in walk_local(f.node, include_root=False):
                    if isinstance(node, ast.Subscript) and \
                            isinstance(node.ctx, ast.Load) and \
                            _self_attr(node.value) in empties:
                        if isinstance(node.slice, ast.Name) and \
                                (node.slice.id, _self_attr(node.value)) \
                                in own_keys:
                            continue
                        looked.setdefault(_self_attr(node.value), node)
                    if isinstance(node, ast.Compare):
                        for op, cmpv in zip(node.ops, node.comparators):
                            if isinstance(op, (ast.In, ast.NotIn)) and \
                                    _self_attr(cmpv) in empties:
                                looked.setdefault(_self_attr(cmpv), node)
                for attr, node in sorted(looked.items()):
                    grp = group.get(attr, {attr})
                    ins = [g for a in grp for g in inserters.get(a, [])]
                    ins += [g for a in grp for g in sub_ins.get(a, [])]
                    ok = bool(ins)
                    n += 1
                    col.add(rule, "%s:%s.%s" % (m.short, ci.name, mname),
                            "lookup self.%s" % attr, ok,
                            "filled by %s" % ", ".join(sorted(
                                {g.qualname for g in ins})) if ok else
                            "%s.%s looks entries up in self.%s, but no method "
                            "of %s or its bases ever inserts into it (aliases "
                            "considered: %s): every lookup fails"
                            % (ci.name, mname, attr, ci.name, sorted(grp)),
                            )
    return n


def shared_mutable_state(repo, col, module_shorts):
    """Class-level mutable containers mutated through self, and mutable
    default arguments that are mutated: state leaks between instances /
    calls."""
    rule = "E-ATTR.shared-mutable"
    n = 0
    for ms in module_shorts:
        m = repo.module(ms)
        for ci in m.classes.values():
            for st in ci.node.body:
                tgt = val = None
                if isinstance(st, ast.Assign) and len(st.targets) == 1:
                    tgt, val = st.targets[0], st.value
                elif isinstance(st, ast.AnnAssign):
                    tgt, val = st.target, st.value
                if not isinstance(tgt, ast.Name) or val is None:
                    continue
                mutable = isinstance(val, (ast.Dict, ast.List, ast.Set)) or (
                    isinstance(val, ast.Call) and call_name(val) in
                    ("dict", "list", "set", "bytearray"))
                if not mutable:
                    continue
                # rebound per instance in an __init__ of the class?
                rebound = False
                mutated = None
                for c in [ci] + repo.subclasses(ci):
                    for f in c.methods.values():
                        for node in walk_local(f.node, include_root=False):
                            if isinstance(node, (ast.Assign, ast.AnnAssign)):
                                tg = node.targets if isinstance(node, ast.Assign) \
                                    else [node.target]
                                for t in tg:
                                    if _self_attr(t) == tgt.id and \
                                            f.qualname.endswith("__init__"):
                                        rebound = True
                                    if isinstance(t, ast.Subscript) and \
                                            _self_attr(t.value) == tgt.id:
                                        mutated = mutated or node
                            if isinstance(node, ast.Call) and \
                                    isinstance(node.func, ast.Attribute) and \
                                    _self_attr(node.func.value) == tgt.id and \
                                    node.func.attr in ("append", "update", "add",
                                                       "setdefault", "extend",
                                                       "pop", "clear"):
                                mutated = mutated or node
                n += 1
                ok = rebound or mutated is None
                col.add(rule, "%s:%s" % (m.short, ci.name),
                        "class attribute %s = %s" % (tgt.id, norm(val)), ok,
                        "" if ok else "mutable class attribute %s is mutated "
                        "through self and never rebound per instance: all "
                        "instances (e.g. accessors of different datasets) "
                        "share one container" % tgt.id, node=st)
        for f in m.functions.values():
            a = f.node.args
            params = a.posonlyargs + a.args
            defaults = [None] * (len(params) - len(a.defaults)) + list(a.defaults)
            for p, d in list(zip(params, defaults)) + \
                    list(zip(a.kwonlyargs, a.kw_defaults)):
                if d is None or not isinstance(d, (ast.Dict, ast.List, ast.Set)):
                    continue
                mutated = None
                for node in walk_local(f.node, include_root=False):
                    if isinstance(node, ast.Call) and \
                            isinstance(node.func, ast.Attribute) and \
                            isinstance(node.func.value, ast.Name) and \
                            node.func.value.id == p.arg and node.func.attr in (
                                "append", "update", "add", "setdefault",
                                "extend", "pop", "clear", "insert"):
                        mutated = node
                    if isinstance(node, (ast.Assign, ast.AugAssign)):
                        tg = node.targets if isinstance(node, ast.Assign) \
                            else [node.target]
                        for t in tg:
                            if isinstance(t, ast.Subscript) and \
                                    isinstance(t.value, ast.Name) and \
                                    t.value.id == p.arg:
                                mutated = node
                            if isinstance(node, ast.AugAssign) and \
                                    isinstance(t, ast.Name) and t.id == p.arg:
                                mutated = node
                n += 1
                col.add(rule, f, "default %s=%s" % (p.arg, norm(d)),
                        mutated is None,
                        "" if mutated is None else "mutable default argument "
                        "%s is mutated in the body: results of earlier calls "
                        "leak into later ones" % p.arg, node=mutated,
                        nontrivial=False)
    return n


# ---------------------------------------------------------------------
# E-ATTR: configuration independence of FileAccessor reads (C12)
# ---------------------------------------------------------------------
def read_config_independence(repo, col):
    rule = "E-ATTR.config-independent-read"
    ci = repo.cls("file_accessor", "FileAccessor")
    init = repo.func("file_accessor", "FileAccessor.__init__")
    params = [p for p in init.params if p != "self"]
    base_param = params[0]
    config_attrs = set()
    pattern_values = set()
    for st in walk_local(init.node, include_root=False):
        if isinstance(st, ast.Assign):
            for t in st.targets:
                a = _self_attr(t)
                if a and not (names_in(st.value) & {base_param}):
                    config_attrs.add(a)
                    if "pattern" in a:
                        arms_ = [st.value]
                        while any(isinstance(x, ast.IfExp) for x in arms_):
                            arms_ = [y for x in arms_ for y in (
                                (x.body, x.orelse)
                                if isinstance(x, ast.IfExp) else (x,))]
                        pattern_values |= {norm(x) for x in arms_}
    if not config_attrs:
        raise AnalysisError("anchor vanished: FileAccessor configuration "
                            "attributes")
    for mname in ("fetch_file", "fetch_chunk", "file_exists"):
        fn = repo.func("file_accessor", "FileAccessor." + mname)
        reads = sorted({_self_attr(n) for n in walk_local(fn.node)
                        if _self_attr(n) in config_attrs})
        col.add(rule, fn, "direct reads of %s" % sorted(config_attrs),
                not reads, "" if not reads else "%s depends on the write "
                "configuration attribute(s) %s: data written under another "
                "configuration is not found" % (mname, reads))
        # helpers
        for c in calls_in(fn.node):
            f = c.func
            if isinstance(f, ast.Attribute) and isinstance(f.value, ast.Name) \
                    and f.value.id == "self" and f.attr in ci.methods:
                helper = ci.methods[f.attr]
                hreads = {}
                for n in walk_local(helper.node, include_root=False):
                    a = _self_attr(n)
                    if a in config_attrs:
                        hreads[a] = n
                for a, node in hreads.items():
                    # allowed only under `if <param> is None` with the call
                    # passing that parameter explicitly (non-None)
                    ok = False
                    guards_ = []
                    for st in stmts_of(helper.node):
                        if isinstance(st, ast.If) and any(
                                x is node for s in st.body
                                for x in walk_local(s)):
                            guards_.append(st.test)
                    # conditional-expression form: `attr if p is None else p`
                    for ie in walk_local(helper.node):
                        if isinstance(ie, ast.IfExp) and any(
                                x is node for x in walk_local(ie.body)):
                            guards_.append(ie.test)
                    for gtest in guards_:
                        if True:
                            for at in holds(gtest, True):
                                pname = at.left.id if isinstance(
                                    at.left, ast.Name) else None
                                if pname is not None and \
                                        pname not in helper.params:
                                    # a local that starts as a copy of a
                                    # parameter (`p = param` ... `if p is None`)
                                    for d in local_defs(helper.node).get(
                                            pname, []):
                                        if isinstance(d.value, ast.Name) and \
                                                d.value.id in helper.params:
                                            pname = d.value.id
                                            break
                                if at.op == "is" and norm(at.right) == "None" \
                                        and pname in helper.params:
                                    idx = helper.params.index(pname) - 1
                                    arg = None
                                    if idx < len(c.args):
                                        arg = c.args[idx]
                                    arg = kwarg(c, pname) or arg
                                    if arg is not None and not (
                                            isinstance(arg, ast.Constant) and
                                            arg.value is None):
                                        ok = True
                    col.add(rule, fn, "%s -> self.%s" % (norm(c)[:60], a), ok,
                            "" if ok else "helper %s falls back to the write "
                            "configuration self.%s on this read path"
                            % (helper.qualname, a), node=c)
    # probing covers every pattern __init__ can select and both suffixes
    fn = repo.func("file_accessor", "FileAccessor.fetch_chunk")
    probed = set()
    unresolved = False
    for h in helper_closure(fn):
        loops_ = [st for st in stmts_of(h.node) if isinstance(st, ast.For)]
        loops_ += [g for x in ast.walk(h.node)
                   if isinstance(x, (ast.ListComp, ast.GeneratorExp,
                                     ast.SetComp, ast.DictComp))
                   for g in x.generators]
        for st in loops_:
            it = st.iter
            if isinstance(it, ast.Name) and \
                    h.module.const(it.id) is not None:
                it = h.module.const(it.id)
            if isinstance(it, (ast.Tuple, ast.List)):
                probed |= {norm(e) for e in it.elts}
            else:
                unresolved = True
    ok = pattern_values <= probed
    col.add(rule, fn, "probed patterns %s" % sorted(probed), ok,
            "" if ok else "fetch_chunk probes %s but chunks may be stored "
            "under %s" % (sorted(probed), sorted(pattern_values)),
            undecided=not ok and unresolved)
    for mname in ("fetch_file", "fetch_chunk", "file_exists"):
        fn = repo.func("file_accessor", "FileAccessor." + mname)
        txt = closure_text(fn)
        plain = ".is_file()" in txt
        gz = "+ '.gz'" in txt and "with_suffix('.gz')" not in txt
        und = not gz and "'.gz'" in txt and "with_suffix('.gz')" not in txt
        col.add(rule, fn, "probes name and name + '.gz'",
                (plain and gz) or und,
                "" if plain and gz else "%s no longer probes both the plain "
                "name and the name with '.gz' appended" % mname,
                undecided=und)


# ---------------------------------------------------------------------
# E-EXIT
# ---------------------------------------------------------------------
DRIVER_FUNCS = [
    ("volume_reader", "store_nibabel_image_to_fullres_info"),
    ("volume_reader", "volume_file_to_precomputed"),
    ("volume_reader", "volume_file_to_info"),
]


def _block_of(fnode, target):
    """The statement list that directly contains `target`."""
    def visit(stmts):
        if target in stmts:
            return stmts
        for st in stmts:
            if isinstance(st, (ast.FunctionDef, ast.AsyncFunctionDef,
                               ast.ClassDef)):
                continue
            for field in ("body", "orelse", "finalbody"):
                sub = getattr(st, field, None)
                if isinstance(sub, list) and sub and \
                        isinstance(sub[0], ast.stmt):
                    r = visit(sub)
                    if r is not None:
                        return r
            for h in getattr(st, "handlers", []) or []:
                r = visit(h.body)
                if r is not None:
                    return r
        return None
    return visit(fnode.body)


def _sentinel_checked(helper, sentinel):
    """True: every same-module caller binds the helper's result and, on the
    sentinel, returns a non-zero constant or raises.  False: some caller
    discards the result.  None: not resolvable."""
    callers = []
    for f in helper.module.functions.values():
        if f is helper:
            continue
        for c in calls_in(f.node):
            if call_name(c) == helper.qualname:
                callers.append((f, c))
    if not callers:
        return None
    res = True
    for f, c in callers:
        owner = enclosing_stmt_map(f.node).get(id(c))
        if isinstance(owner, ast.Expr) and owner.value is c:
            return False
        if not (isinstance(owner, ast.Assign) and owner.value is c and
                isinstance(owner.targets[0], ast.Name)):
            res = None
            continue
        v = owner.targets[0].id
        checked = False
        for st in stmts_of(f.node):
            if isinstance(st, ast.If) and v in names_in(st.test) and st.body:
                last = st.body[-1]
                if isinstance(last, ast.Raise) or (
                        isinstance(last, ast.Return) and last.value is not None
                        and (const_int(last.value) or 0) != 0):
                    checked = True
        if not checked:
            res = None
    return res


def _is_fatal_call(fn, call):
    """sys.exit(...) / <ArgumentParser>.error(...) / .exit(...): never
    return."""
    nm = call_name(call) or ""
    if nm.endswith(("sys.exit", "parser.error", "os._exit")) or nm == "exit":
        return True
    f = call.func
    if isinstance(f, ast.Attribute) and f.attr in ("error", "exit") and \
            isinstance(f.value, ast.Name):
        if f.value.id in fn.params:
            return "pars" in f.value.id.lower()
        for d in local_defs(fn.node).get(f.value.id, []):
            if isinstance(d.value, ast.Call) and (
                    call_name(d.value) or "").endswith("ArgumentParser"):
                return True
    return False


def _main_passes_status(fn):
    """(ok, undecided) for a script's main(): the status returned by the
    driver function reaches a `return`.  FAIL only if a driver call's value is
    discarded (bare expression statement) or main never returns a value."""
    defs = local_defs(fn.node)
    owner = enclosing_stmt_map(fn.node)
    skip = ("parse_command_line", "init_logging_for_cmdline", "getLogger",
            "basicConfig", "vars")
    drivers = []
    for c in calls_in(fn.node):
        nm = (call_name(c) or "")
        short = nm.split(".")[-1]
        if short in skip or not nm:
            continue
        tgt = fn.module.resolve(nm) or ""
        if short in fn.module.functions or tgt.startswith(PKG + "."):
            drivers.append(c)
    rets = [s_ for s_ in stmts_of(fn.node) if isinstance(s_, ast.Return)]
    if not drivers:
        return False, True
    if not any(r.value is not None for r in rets):
        return False, False
    ret_names = set()
    for r in rets:
        if r.value is not None:
            ret_names |= closure_names(fn.node, names_in(r.value), defs)
    verdicts = []
    for c in drivers:
        st = owner.get(id(c))
        if isinstance(st, ast.Return):
            verdicts.append(True)
        elif isinstance(st, ast.Expr) and st.value is c:
            verdicts.append(False)          # status discarded
        elif isinstance(st, ast.Assign) and any(
                isinstance(t, ast.Name) and t.id in ret_names
                for t in st.targets):
            verdicts.append(True)
        else:
            verdicts.append(None)
    if any(v is False for v in verdicts):
        return False, False
    if all(v is True for v in verdicts):
        return True, False
    return False, True


def exit_status(repo, col):
    rule = "E-EXIT"
    fns = [repo.func(ms, qn) for ms, qn in DRIVER_FUNCS]
    script_mods = [m for name, m in sorted(repo.modules.items())
                   if ".scripts." in name]
    if len(script_mods) < 9:
        raise AnalysisError("anchor vanished: expected >= 9 script modules, "
                            "found %d" % len(script_mods))
    for m in script_mods:
        repo.consulted.add(m.name)
        fns += [f for f in m.functions.values() if f.parent is None]
    n_handlers = 0
    for fn in fns:
        for st in stmts_of(fn.node):
            if not isinstance(st, ast.Try):
                continue
            # a lookup with a fallback (`try: return cache[k]` / `except
            # KeyError:`) runs no operation that could fail: nothing is
            # swallowed
            body_calls = [c for b_ in st.body for c in ast.walk(b_)
                          if isinstance(c, ast.Call)]
            pure_body = all(
                isinstance(c.func, ast.Name) and c.func.id in (
                    "int", "float", "len", "tuple", "str", "getattr", "next",
                    "iter", "hash") for c in body_calls)
            lookup_types = {"KeyError", "IndexError", "AttributeError",
                            "StopIteration", "ValueError", "TypeError"}
            for h in st.handlers:
                types_ = []
                if h.type is not None:
                    types_ = [norm(t_).split(".")[-1] for t_ in (
                        h.type.elts if isinstance(h.type, ast.Tuple)
                        else [h.type])]
                if pure_body and types_ and set(types_) <= lookup_types:
                    continue
                n_handlers += 1
                last = h.body[-1] if h.body else None
                ok = False
                what = "falls through"
                if isinstance(last, ast.Raise):
                    ok = True
                elif isinstance(last, ast.Return):
                    v = last.value
                    c = const_int(v) if v is not None else None
                    ok = c is not None and c != 0
                    what = "returns %s" % norm(v)
                elif isinstance(last, ast.Expr) and isinstance(last.value, ast.Call) \
                        and _is_fatal_call(fn, last.value):
                    ok = True
                elif isinstance(last, ast.Assign) and \
                        isinstance(last.targets[0], ast.Name) and \
                        (const_int(last.value) or 0) != 0 and any(
                            isinstance(r, ast.Return) and r.value is not None
                            and last.targets[0].id in names_in(r.value)
                            for r in stmts_of(fn.node)):
                    ok = True       # status variable returned later
                sentinel_ret = last if isinstance(last, ast.Return) else None
                if sentinel_ret is None and not isinstance(
                        last, (ast.Raise, ast.Continue, ast.Break)):
                    # handler falls through to `return <sentinel>` placed
                    # right after the try statement
                    blk = _block_of(fn.node, st)
                    if blk is not None:
                        k_ = blk.index(st)
                        if k_ + 1 < len(blk) and isinstance(blk[k_ + 1],
                                                            ast.Return):
                            sentinel_ret = blk[k_ + 1]
                if not ok and sentinel_ret is not None and \
                        fn.qualname.startswith("_") and fn.parent is None:
                    last = sentinel_ret
                    # private helper reporting failure through a sentinel:
                    # every caller must turn the sentinel into a failure
                    verdict = _sentinel_checked(fn, last.value)
                    if verdict is not False:
                        col.add(rule + ".handler", fn, "except %s"
                                % norm(h.type), True, "helper returns a "
                                "sentinel that its caller turns into a "
                                "non-zero status" if verdict else
                                "helper returns a sentinel; callers not "
                                "resolved", node=h, undecided=verdict is None)
                        continue
                col.add(rule + ".handler", fn, "except %s" % norm(h.type), ok,
                        "" if ok else "handler %s: the command continues and "
                        "can exit with a success status although the "
                        "operation failed" % what, node=h)
        if fn.qualname == "main" and fn.module.name.count(".") == 2:
            ok, und = _main_passes_status(fn)
            col.add(rule + ".main", fn, "return driver(...) or 0", ok or und,
                    "" if ok else "main does not pass the driver's status on",
                    nontrivial=False, undecided=und and not ok)
    return n_handlers


# ---------------------------------------------------------------------
# E-TABLE
# ---------------------------------------------------------------------
def _literal(node):
    return ast.literal_eval(node)


def orientation_tables(repo, col):
    rule = "E-TABLE.orientation"
    m = repo.module("scripts.slices_to_precomputed")
    for name in ("POSSIBLE_AXIS_ORIENTATIONS", "AXIS_PERMUTATION_FOR_RAS",
                 "AXIS_INVERSION_FOR_RAS"):
        if m.const(name) is None:
            raise AnalysisError("anchor vanished: %s" % name)
    try:
        codes = _literal(m.const("POSSIBLE_AXIS_ORIENTATIONS"))
        _literal(m.const("AXIS_PERMUTATION_FOR_RAS"))
        _literal(m.const("AXIS_INVERSION_FOR_RAS"))
    except (ValueError, TypeError, SyntaxError):
        col.add(rule, "scripts.slices_to_precomputed:tables",
                "orientation tables", True, "the orientation tables are "
                "computed, not written as literals: their contents are not "
                "evaluated", undecided=True)
        return
    want = {"".join(p) for t in itertools.product("LR", "AP", "IS")
            for p in itertools.permutations(t)}
    col.add(rule, "scripts.slices_to_precomputed:POSSIBLE_AXIS_ORIENTATIONS",
            "48 codes", set(codes) == want and len(codes) == 48,
            "" if set(codes) == want and len(codes) == 48 else
            "orientation list differs from product(LR,AP,IS) x permutations: "
            "missing %s extra %s" % (sorted(want - set(codes)),
                                     sorted(set(codes) - want)))
    perm = _literal(m.const("AXIS_PERMUTATION_FOR_RAS"))
    inv = _literal(m.const("AXIS_INVERSION_FOR_RAS"))
    want_perm = {"R": 0, "L": 0, "A": 1, "P": 1, "S": 2, "I": 2}
    want_inv = {"R": 1, "A": 1, "S": 1, "L": -1, "P": -1, "I": -1}
    for letter in "RLAPSI":
        col.add(rule, "scripts.slices_to_precomputed:AXIS_PERMUTATION_FOR_RAS",
                "%s -> axis" % letter, perm.get(letter) == want_perm[letter],
                "" if perm.get(letter) == want_perm[letter] else
                "%s maps to axis %r, RAS+ convention says %d"
                % (letter, perm.get(letter), want_perm[letter]))
        col.add(rule, "scripts.slices_to_precomputed:AXIS_INVERSION_FOR_RAS",
                "%s -> sign" % letter, inv.get(letter) == want_inv[letter],
                "" if inv.get(letter) == want_inv[letter] else
                "%s has sign %r, RAS+ convention says %d"
                % (letter, inv.get(letter), want_inv[letter]))
    # exhaustively over the 48 codes: permutation is a bijection on {0,1,2}
    bad = [c for c in codes
           if sorted(perm.get(ch, -1) for ch in c) != [0, 1, 2]]
    col.add(rule, "scripts.slices_to_precomputed:tables", "48 codes bijective",
            not bad, "" if not bad else "codes whose axes do not form a "
            "permutation: %s" % bad)
    # the CLI validates against the table
    fn = repo.func("scripts.slices_to_precomputed", "parse_command_line")
    # membership test against the table (either polarity, possibly in a
    # helper predicate, or `choices=` of the argument)
    ok = False
    for h in helper_closure(fn):
        for n in walk_local(h.node):
            if isinstance(n, ast.Compare) and isinstance(
                    n.ops[0], (ast.NotIn, ast.In)) and \
                    norm(n.comparators[0]) == "POSSIBLE_AXIS_ORIENTATIONS":
                ok = True
            if isinstance(n, ast.keyword) and n.arg == "choices" and \
                    "POSSIBLE_AXIS_ORIENTATIONS" in norm(n.value):
                ok = True
    col.add(rule, fn, "orientation validated against the table", ok,
            "" if ok else "the command line no longer rejects codes outside "
            "the table")


def _const_float(node):
    if isinstance(node, ast.Constant) and isinstance(node.value, (int, float)) \
            and not isinstance(node.value, bool):
        return float(node.value)
    return None


def unit_literals(repo, col, sites):
    """sites: [(module, qualname, mention-substring, expected factor)]"""
    rule = "E-TABLE.units"
    for ms, qn, mention, want in sites:
        fn = repo.func(ms, qn)
        found = []
        for n in walk_local(fn.node):
            if isinstance(n, ast.BinOp) and isinstance(n.op, (ast.Mult, ast.Div)):
                for c, other in ((n.left, n.right), (n.right, n.left)):
                    v = _const_float(c)
                    if v is not None and mention in norm(other) and \
                            v not in (0.5, 2.0, 1.0, 3.0, 4.0):
                        if isinstance(n.op, ast.Div) and c is n.right:
                            v = 1.0 / v
                        found.append((n, v))
        if not found:
            col.add(rule, fn, "%s * %g" % (mention, want), True,
                    "no unit conversion literal applied to %s" % mention,
                    undecided=True)
            continue
        for n, v in found:
            ok = abs(v - want) <= 1e-12 * max(abs(want), 1)
            col.add(rule, fn, norm(n)[:70], ok,
                    "" if ok else "unit factor %g applied to %s, expected %g "
                    "(mm <-> nm)" % (v, mention, want), node=n)


def iec_prefixes(repo, col):
    rule = "E-TABLE.iec"
    m = repo.module("utils")
    if "_IEC_PREFIXES" not in m.constants:
        raise AnalysisError("anchor vanished: utils._IEC_PREFIXES")
    node = m.constants["_IEC_PREFIXES"]
    rows = []
    if not isinstance(node, (ast.List, ast.Tuple)) or not all(
            isinstance(e, ast.Tuple) and len(e.elts) == 2 and
            isinstance(e.elts[1], ast.Constant) for e in node.elts):
        col.add(rule, "utils:_IEC_PREFIXES", "prefix table", True,
                "table is not a literal list of (factor, prefix) pairs",
                undecided=True)
        return
    for e in node.elts:
        f, p = e.elts
        val = None
        if isinstance(f, ast.BinOp) and isinstance(f.op, ast.Pow):
            val = const_int(f.left) ** const_int(f.right)
        elif const_int(f) is not None:
            val = const_int(f)
        rows.append((val, p.value))
    want = [(1024 ** (i + 1), s) for i, s in
            enumerate(["ki", "Mi", "Gi", "Ti", "Pi", "Ei"])]
    for i, w in enumerate(want):
        got = rows[i] if i < len(rows) else None
        col.add(rule, "utils:_IEC_PREFIXES", "%s = 1024**%d" % (w[1], i + 1),
                got == w, "" if got == w else "prefix row %d is %r, expected "
                "%r" % (i, got, w))


# ---------------------------------------------------------------------
# E-OWN
# ---------------------------------------------------------------------
OWNING_CALLS = {"copy", "astype"}


def _paths(stmts, prefix=None, limit=512):
    """Enumerate execution paths through a statement list as event lists:
    ('stmt', node) and ('cond', test, truth).  Loops: body 0 or 1 times."""
    paths = [list(prefix or [])]
    for st in stmts:
        new = []
        for p in paths:
            if p and p[-1][0] == "end":
                new.append(p)
                continue
            if isinstance(st, ast.If):
                for truth, body in ((True, st.body), (False, st.orelse)):
                    for sub in _paths(body, p + [("cond", st.test, truth)]):
                        new.append(sub)
            elif isinstance(st, (ast.For, ast.While)):
                new.append(p + [("stmt", st)])
                for sub in _paths(st.body, p + [("stmt", st)]):
                    new.append(sub)
            elif isinstance(st, (ast.Return, ast.Raise)):
                new.append(p + [("stmt", st), ("end", st)])
            elif isinstance(st, ast.With):
                for sub in _paths(st.body, p + [("stmt", st)]):
                    new.append(sub)
            elif isinstance(st, ast.Try):
                for sub in _paths(st.body, p):
                    new.append(sub)
            else:
                new.append(p + [("stmt", st)])
        paths = new[:limit]
    return paths


def _owning_expr(module, v, target):
    """v produces a fresh, writeable array (copy=True / .copy() / .astype())."""
    if isinstance(v, ast.Call):
        nm = module.resolve(call_name(v)) if call_name(v) else None
        if nm == "numpy.array":
            cp = kwarg(v, "copy")
            return cp is None or (isinstance(cp, ast.Constant)
                                  and cp.value is True)
        if nm in ("numpy.empty", "numpy.zeros", "numpy.pad", "numpy.copy",
                  "numpy.stack", "numpy.concatenate"):
            return True
        if isinstance(v.func, ast.Attribute) and v.func.attr in OWNING_CALLS:
            cp = kwarg(v, "copy")
            return cp is None or (isinstance(cp, ast.Constant)
                                  and cp.value is True)
    if isinstance(v, ast.BinOp):
        return True
    return False


def _sound_private_flag(fn, name):
    """The local `name` is (the negation of) np.may_share_memory /
    np.shares_memory, possibly computed by a local helper."""
    from .rules_more4 import _derivations
    if not name.isidentifier():
        return False
    for e in _derivations(fn, ast.Name(id=name, ctx=ast.Load())):
        for x in ast.walk(e):
            if isinstance(x, ast.UnaryOp) and isinstance(x.op, ast.Not) and \
                    isinstance(x.operand, ast.Call) and \
                    (call_name(x.operand) or "").split(".")[-1] in (
                        "may_share_memory", "shares_memory"):
                return True
    return False


def inplace_ownership(repo, col):
    rule = "E-OWN"
    from .core import returned_closure
    fn = returned_closure(repo.func("data_types",
                                    "get_chunk_dtype_transformer"))
    if fn is None or not fn.params:
        col.add(rule, "data_types:get_chunk_dtype_transformer",
                "converter closure", True, "the converter is not a nested "
                "function: its in-place writes are not analysed",
                undecided=True)
        return 0
    m = fn.module
    params = fn.params
    arr = params[0]
    preserve = "preserve_input" if "preserve_input" in params else None
    if preserve is None:
        raise AnalysisError("anchor vanished: preserve_input parameter")
    sites = 0
    tracked_all = {arr}
    for path in _paths(fn.node.body):
        # per-path state: which names hold a private copy, and which may
        # alias the caller's array (root = the parameter they derive from)
        owned = {}
        root = {arr: arr}
        conds = []

        def _writeable(nm):
            return owned.get(nm, False) or \
                ("%s.flags.writeable" % nm, "truthy") in conds or \
                ("%s.flags.writeable" % root.get(nm, nm), "truthy") in conds
        disj = []       # alternatives one of which holds: [(text, op), ...]
        for ev in path:
            if ev[0] == "cond":
                conds += [(norm(a.left), a.op) for a in holds(ev[1], ev[2])]
                # not (A and B) on this path: not A or not B
                parts = [ev[1]]
                if isinstance(ev[1], ast.BoolOp) and \
                        isinstance(ev[1].op, ast.Or) and not ev[2]:
                    parts = list(ev[1].values)
                for pt in parts:
                    if isinstance(pt, ast.BoolOp) and \
                            isinstance(pt.op, ast.And) and not ev[2]:
                        alts = []
                        for v_ in pt.values:
                            alts += [(norm(a.left), a.op)
                                     for a in holds(v_, False)]
                        if len(alts) == len(pt.values):
                            disj.append(alts)
                continue
            if ev[0] != "stmt":
                continue
            st = ev[1]
            # in-place writes in this statement
            for c in calls_in(st):
                out = kwarg(c, "out")
                if out is not None and norm(out) in root:
                    nm = norm(out)
                    sites += 1
                    writeable = _writeable(nm)
                    col.add(rule + ".writeable", fn, norm(c)[:60],
                            writeable, "" if writeable else
                            "in-place write into `%s`, which on this path is "
                            "neither a fresh copy nor checked with "
                            ".flags.writeable: fails on read-only buffers "
                            "(decoded chunks, memory maps)" % nm, node=c,
                            path=["%s %s" % c_ for c_ in conds])
                    may_preserve = (preserve, "falsy") not in conds
                    if may_preserve:
                        # `not preserve_input or private`, where `private` is
                        # computed with np.may_share_memory / shares_memory:
                        # a sound run-time test that the array is not the
                        # caller's
                        for alts in disj:
                            if all(a_ == (preserve, "falsy") or (
                                    a_[1] == "truthy" and
                                    _sound_private_flag(fn, a_[0]))
                                   for a_ in alts):
                                may_preserve = False
                    okp = owned.get(nm, False) or not may_preserve
                    col.add(rule + ".preserve", fn, norm(c)[:60], okp,
                            "" if okp else "in-place write into the caller's "
                            "array on a path where preserve_input may be "
                            "true", node=c)
            if isinstance(st, ast.AugAssign) and norm(st.target) in root:
                sites += 1
                okw = owned.get(norm(st.target), False)
                col.add(rule + ".writeable", fn, norm(st)[:60], okw,
                        "" if okw else "augmented assignment writes into "
                        "a possibly borrowed array", node=st)
            if isinstance(st, ast.Assign) and len(st.targets) == 1 and \
                    isinstance(st.targets[0], ast.Name):
                tgt = st.targets[0].id
                v = st.value
                srcs = [n_ for n_ in names_in(v) if n_ in root]
                if not srcs:
                    if tgt in root and tgt != arr:
                        root.pop(tgt, None)
                        owned.pop(tgt, None)
                    elif tgt == arr:
                        owned[arr] = False
                    continue
                src = srcs[0]
                if _owning_expr(m, v, src):
                    owned[tgt] = True
                    root[tgt] = root.get(src, src)
                elif isinstance(v, ast.Call) and (m.resolve(call_name(v) or "")
                                                  in ("numpy.asarray",
                                                      "numpy.asanyarray",
                                                      "numpy.array")):
                    # may alias: ownership is inherited from the source
                    if tgt != src:
                        owned[tgt] = owned.get(src, False)
                    root[tgt] = root.get(src, src)
                elif isinstance(v, ast.Name):
                    owned[tgt] = owned.get(src, False)
                    root[tgt] = root.get(src, src)
                else:
                    if tgt in root:
                        owned[tgt] = False
                    else:
                        continue
                tracked_all.add(tgt)
    if sites == 0:
        col.add(rule + ".writeable", fn, "in-place writes (out=)", True,
                "no in-place write into the chunk or a local derived from it "
                "was recognised in %s" % fn.key, undecided=True)
    # the final cast reads the array that was rounded/clipped
    outer_fn = repo.func("data_types", "get_chunk_dtype_transformer")
    out_param = outer_fn.params[1] if len(outer_fn.params) > 1 else \
        "output_dtype"
    rets = [s for s in stmts_of(fn.node) if isinstance(s, ast.Return)]
    odefs = local_defs(outer_fn.node)

    def _is_out(e):
        """The output dtype under one of its names: the parameter, a field
        or attribute called like it, a local of the factory derived from it
        alone."""
        t = norm(e)
        if t == out_param or t.endswith("." + out_param):
            return True
        if isinstance(e, ast.Name):
            src = closure_names(outer_fn.node, [e.id], odefs) & set(
                outer_fn.params)
            return src == {out_param}
        return False

    def _is_other(e):
        t = norm(e)
        return isinstance(e, ast.Constant) or "work" in t or "input" in t \
            or (isinstance(e, ast.Attribute) and e.attr == "dtype" and
                norm(e.value) in tracked_all)
    ok = bool(rets) and all(
        isinstance(r.value, ast.Call) and isinstance(r.value.func, ast.Attribute)
        and r.value.func.attr == "astype"
        and norm(r.value.func.value) in tracked_all
        and r.value.args and _is_out(r.value.args[0])
        for r in rets)
    # positively wrong: a return that casts to another dtype, or hands back
    # the tracked work array without any cast; a result assembled some other
    # way (allocated in the output type and filled) is not decided here
    wrong = []
    for r in rets:
        v = r.value
        if isinstance(v, ast.Call) and isinstance(v.func, ast.Attribute) \
                and v.func.attr == "astype" and v.args and \
                not _is_out(v.args[0]) and _is_other(v.args[0]):
            wrong.append(r)
        elif isinstance(v, ast.Name) and v.id in tracked_all:
            wrong.append(r)
    col.add(rule + ".final-cast", fn, "return %s.astype(output_dtype)" % arr,
            ok or not wrong, "" if ok else
            ("the converter does not return the rounded / clipped array cast "
             "to the output type" if wrong else "the result is not returned "
             "as <array>.astype(output dtype): how it gets the output type is "
             "not followed"), undecided=not ok and not wrong,
            node=wrong[0] if wrong else None)


def copy_keyword_contract(repo, col):
    """np.array(x, copy=E): under NumPy >= 2 copy=False raises when a copy is
    needed; E must be the constant True (or None)."""
    rule = "E-OWN.copy-kw"
    n = 0
    for m in repo.modules.values():
        for fn in m.functions.values():
            for c in calls_in(fn.node):
                nm = m.resolve(call_name(c)) if call_name(c) else None
                if nm in ("numpy.array", "numpy.asarray") and \
                        kwarg(c, "copy") is not None:
                    cp = kwarg(c, "copy")
                    ok = isinstance(cp, ast.Constant) and cp.value in (True, None)
                    n += 1
                    repo.consulted.add(m.name)
                    col.add(rule, fn, norm(c)[:70], ok,
                            "" if ok else "copy=%s can be False while a dtype "
                            "conversion needs a copy: NumPy >= 2 raises "
                            "ValueError ('Unable to avoid copy')" % norm(cp),
                            node=c)
    return n


# ---------------------------------------------------------------------
# optional parameters for which 0 is a valid value
# ---------------------------------------------------------------------
OPTIONAL_ZERO_SITES = [
    ("downscaling", "AveragingDownscaler.__init__", "outside_value",
     "0 is a valid outside value (zero padding)"),
    ("volume_reader", "nibabel_image_to_precomputed", "input_max",
     "0 is a valid --input-max"),
    ("volume_reader", "nibabel_image_to_precomputed", "input_min",
     "0 is a valid --input-min"),
    ("volume_reader", "nibabel_image_to_info", "input_max",
     "0 is a valid --input-max"),
]


def optional_zero(repo, col):
    rule = "E-BOUND.optional-zero"
    for ms, qn, param, reason in OPTIONAL_ZERO_SITES:
        fn = repo.func(ms, qn)
        if param not in fn.params:
            raise AnalysisError("anchor vanished: parameter %s of %s"
                                % (param, fn.key))
        bad = None
        tests = 0
        for n in walk_local(fn.node):
            test = None
            if isinstance(n, (ast.If, ast.While, ast.IfExp)):
                test = n.test
            elif isinstance(n, ast.Assert):
                test = n.test
            if test is None:
                continue
            for at in holds(test, True) + holds(test, False):
                if norm(at.left) == param:
                    tests += 1
                    if at.op in ("truthy", "falsy"):
                        bad = n
            for sub in walk_local(test):
                if isinstance(sub, ast.BoolOp):
                    for v in sub.values:
                        if isinstance(v, ast.Name) and v.id == param:
                            bad = n
        col.add(rule, fn, "%s tested with `is None`" % param, bad is None,
                "" if bad is None else "%s is tested by truthiness, so the "
                "value 0 is treated as 'not given' (%s)" % (param, reason),
                node=bad, nontrivial=tests > 0)


# ---------------------------------------------------------------------
# codec / IO pass-through in PrecomputedIO and the raw encoder
# ---------------------------------------------------------------------
def io_pass_through(repo, col):
    rule = "E-ORDER.pass-through"
    for meth, first, second in (("read_chunk", "fetch_chunk", "decode"),
                                ("write_chunk", "encode", "store_chunk")):
        fn = repo.func("precomputed_io", "PrecomputedIO." + meth)
        cfg = fn.cfg()
        owner = enclosing_stmt_map(fn.node)
        for attr in (first, second):
            nodes = []
            for c in calls_in(fn.node):
                hit = isinstance(c.func, ast.Attribute) and c.func.attr == attr
                # a helper of the same class that itself always passes .attr()
                if not hit and isinstance(c.func, ast.Attribute) and \
                        isinstance(c.func.value, ast.Name) and \
                        c.func.value.id == "self" and fn.cls is not None and \
                        c.func.attr in fn.cls.methods:
                    h = fn.cls.methods[c.func.attr]
                    hcfg = h.cfg()
                    hown = enclosing_stmt_map(h.node)
                    hn = [hcfg.node_of(hown.get(id(x))) for x in calls_in(h.node)
                          if isinstance(x.func, ast.Attribute)
                          and x.func.attr == attr and hown.get(id(x)) is not None]
                    hn = [x for x in hn if x is not None]
                    hit = bool(hn) and hcfg.every_path_passes(hcfg.entry,
                                                              hcfg.exit, hn)
                if hit:
                    st = owner.get(id(c))
                    if st is not None and cfg.node_of(st) is not None:
                        nodes.append(cfg.node_of(st))
            ok = bool(nodes) and cfg.every_path_passes(cfg.entry, cfg.exit,
                                                       nodes)
            col.add(rule, fn, "every normal return passes .%s()" % attr, ok,
                    "" if ok else "%s can return without calling .%s(): the "
                    "stored bytes and the returned array can diverge (e.g. a "
                    "cache bypassing a lossy codec)" % (meth, attr))
    # data flow: decode(buf from fetch), store(buf from encode(chunk))
    fn = repo.func("precomputed_io", "PrecomputedIO.read_chunk")
    defs = local_defs(fn.node)
    rets = [s for s in stmts_of(fn.node) if isinstance(s, ast.Return)]
    def decoded(r):
        if r.value is None:
            return False
        if "decode(" in norm(r.value):
            return True
        if any("decode(" in norm(d.value) for nname in closure_names(
                fn.node, names_in(r.value), defs) for d in defs.get(nname, [])
                if d.value is not None):
            return True
        v = r.value
        if isinstance(v, ast.Call) and isinstance(v.func, ast.Attribute) and \
                isinstance(v.func.value, ast.Name) and v.func.value.id == "self" \
                and fn.cls is not None and v.func.attr in fn.cls.methods:
            return "decode(" in norm(fn.cls.methods[v.func.attr].node)
        return False
    ok = all(decoded(r) for r in rets)
    col.add(rule, fn, "returns the decoded fetched bytes", ok and bool(rets),
            "" if ok else "read_chunk returns something that is not the "
            "decoder's output")
    # raw encoder: cast to the little-endian stored dtype dominates tobytes
    for cls in ("RawChunkEncoder", "CompressedSegmentationEncoder"):
        fn = repo.func("chunk_encoding", cls + ".encode", inline=True)
        from .core import nodes_passing, helper_closure, resolve_local_call

        def is_cast(c):
            return isinstance(c.func, ast.Attribute) and \
                c.func.attr == "astype" and c.args and \
                norm(c.args[0]) == "self.dtype"

        def cast_or_equal_nodes(f, depth=0):
            """Nodes after which the chunk has the stored dtype: the cast, an
            `if x.dtype != self.dtype:` around the cast (the other arm is
            the case where nothing needs converting), or a call to a helper
            every path of which passes such a node."""
            fcfg = f.cfg()
            fown = enclosing_stmt_map(f.node)
            out = []
            for c in calls_in(f.node):
                hit = is_cast(c)
                if not hit and depth < 2:
                    h = resolve_local_call(f, c)
                    if h is not None and h is not f:
                        hn = cast_or_equal_nodes(h, depth + 1)
                        hcfg = h.cfg()
                        hit = bool(hn) and hcfg.every_path_passes(
                            hcfg.entry, hcfg.exit, hn)
                if hit:
                    n_ = fcfg.node_of(fown.get(id(c)))
                    if n_ is not None:
                        out.append(n_)
            for st in stmts_of(f.node):
                if isinstance(st, ast.If) and isinstance(st.test, ast.Compare) \
                        and len(st.test.ops) == 1 and \
                        isinstance(st.test.ops[0], ast.NotEq) and \
                        {norm(st.test.left), norm(st.test.comparators[0])} & \
                        {"self.dtype"} and all(
                            norm(x).endswith(".dtype") for x in (
                                st.test.left, st.test.comparators[0])) and \
                        any(is_cast(c) for b in st.body for c in calls_in(b)):
                    n_ = fcfg.node_of(st)
                    if n_ is not None:
                        out.append(n_)
            return out
        cfg = fn.cfg()
        casts = cast_or_equal_nodes(fn)
        ok = bool(casts) and cfg.every_path_passes(cfg.entry, cfg.exit, casts)
        col.add(rule, fn, "astype(self.dtype) on every path", ok,
                "" if ok else "some path serialises the chunk without "
                "converting it to the little-endian stored dtype "
                "(big-endian or differently typed input is written verbatim)")
        safe = all(kwarg(c, "casting") is not None and
                   kwarg(c, "casting").value in ("safe", "equiv", "no")
                   for h in helper_closure(fn) for c in calls_in(h.node)
                   if isinstance(c.func, ast.Attribute)
                   and c.func.attr == "astype")
        col.add(rule, fn, "astype(casting='safe')", safe,
                "" if safe else "encoder cast may silently lose values",
                nontrivial=False)


def minishard_encode_before_park(repo, col):
    """Every payload that reaches the shard (appended now or parked for
    later) is the data_encoder output."""
    rule = "E-ORDER.encode-before-store"
    from .core import minishard_buffer_attr
    bufattr = minishard_buffer_attr(repo)
    fn = repo.func("sharded_file_accessor", "MiniShard.store_cmc_chunk", inline=True)
    defs = local_defs(fn.node)
    params = [p for p in fn.params if p != "self"]
    raw = params[0]
    sinks = []
    for n in walk_local(fn.node):
        if isinstance(n, ast.Call) and (call_name(n) or "") == "self.append" \
                and n.args:
            sinks.append((n, n.args[0]))
        if isinstance(n, ast.Assign) and isinstance(n.targets[0], ast.Subscript) \
                and norm(n.targets[0].value) == "self." + bufattr:
            sinks.append((n, n.value))
    if not sinks:
        col.add(rule, fn, "payload sinks", True, "neither self.append(...) "
                "nor a store into the reorder buffer was recognised in %s"
                % fn.key, undecided=True)
        return
    from .core import attr_constants, expand_attrs
    table = attr_constants(repo, fn.cls) if fn.cls is not None else {}

    def encoding_of(e):
        """'data' / 'index' / 'other' / None for an expression: which codec
        of the shard specification produced it (None: not a codec call)."""
        t = norm(expand_attrs(e, table))
        if "data_encoder(" in t:
            return "data"
        if "index_encoder(" in t:
            return "index"
        for c in ast.walk(e):
            if isinstance(c, ast.Call) and isinstance(c.func, ast.Attribute) \
                    and c.func.attr in ("encode", "encoder", "compress") and \
                    raw in (closure_names(fn.node, names_in(c), defs)
                            | names_in(c)):
                recv = norm(expand_attrs(c.func.value, table))
                if "index" in recv:
                    return "index"
                if "data" in recv:
                    return "data"
                return "other"
        return None

    for node, val in sinks:
        ok = False
        kinds = {encoding_of(val)}
        for nm in names_in(val):
            ds = [d for d in defs.get(nm, []) if d.value is not None]
            if ds:
                ks = {encoding_of(d.value) for d in ds}
                if len(ks) == 1:
                    kinds |= ks
        if "data" in kinds:
            ok = True
        und = False
        if not ok and "other" in kinds and "index" not in kinds:
            und = True          # encoded by something this rule cannot name
        elif not ok:
            derive = closure_names(fn.node, names_in(val), defs) | \
                names_in(val)
            if raw in derive:
                pass            # the caller's bytes, not encoded: FAIL
            elif isinstance(val, ast.Constant) or \
                    ("self." + bufattr) in norm(val) or any(
                        ("self." + bufattr) in norm(d.value)
                        for nm in derive for d in defs.get(nm, [])
                        if d.value is not None):
                ok = True       # gap filler / a payload parked earlier
            else:
                und = True
        col.add(rule, fn, re.sub(r"__h\d+", "", norm(node))[:70], ok or und,
                "" if ok else "payload `%s` reaches the shard without passing "
                "shard_spec.data_encoder: with gzip data encoding the stored "
                "bytes are not decodable" % norm(val), node=node,
                undecided=und)


# ---------------------------------------------------------------------
# more small closed-world rules
# ---------------------------------------------------------------------
def rgb_split_idiom(repo, col):
    """Structured (R, G, B) voxels become a trailing channel axis by stacking
    the fields; re-interpreting the buffer with .view() depends on the memory
    order of the array (nibabel returns Fortran order)."""
    rule = "E-SPEC.rgb-split"
    fn = None
    m = repo.module("volume_reader")
    for cand in ("split_rgb_channels", "volume_file_to_precomputed"):
        if cand in m.functions and any(
                (call_name(c) or "").endswith(("get_dtype_from_vol",
                                               "np.stack", ".view"))
                for c in calls_in(m.functions[cand].node)):
            fn = m.functions[cand]
            break
    if fn is None:
        col.add(rule, "volume_reader:split_rgb_channels", "RGB split", True,
                "the function that splits RGB voxels into channels was not "
                "recognised", undecided=True)
        return
    views = [c for c in calls_in(fn.node) if isinstance(c.func, ast.Attribute)
             and c.func.attr == "view"]
    col.add(rule, fn, "no buffer re-interpretation (.view)", not views,
            "" if not views else "structured voxels are re-interpreted with "
            ".view(): this raises for Fortran-ordered arrays and otherwise "
            "expands the wrong axis", node=views[0] if views else None)
    stacks = [c for c in calls_in(fn.node)
              if (call_name(c) or "").endswith("np.stack")]
    ok = False
    for c in stacks:
        ax = kwarg(c, "axis")
        if ax is not None and const_int(ax) == -1 and c.args and \
                ".dtype.names" in norm(c.args[0]):
            ok = True
    col.add(rule, fn, "np.stack([a[name] for name in a.dtype.names], axis=-1)",
            ok, "" if ok else "channels are not built by stacking the fields "
            "along a new last axis", undecided=not ok and not views)


def cast_before_write(repo, col, sites):
    """sites: [(module, qualname, dtype name)]: the array handed to
    write_chunk is cast with casting='equiv' to the dataset dtype (a silent
    unsafe cast would hide a missing conversion)."""
    rule = "E-ORDER.cast-before-write"
    for ms, qn in sites:
        fn = repo.func(ms, qn)
        calls = [(c, fn) for c in calls_in(fn.node)
                 if isinstance(c.func, ast.Attribute)
                 and c.func.attr == "write_chunk"]
        if not calls:
            # moved into a nested / module-level helper (possibly bound with
            # functools.partial)?
            for f2 in helper_closure(fn, depth=3):
                if f2 is fn:
                    continue
                calls += [(c, f2) for c in calls_in(f2.node)
                          if isinstance(c.func, ast.Attribute)
                          and c.func.attr == "write_chunk"]
        if not calls:
            col.add(rule, fn, "write_chunk", True, "write_chunk is not called "
                    "in %s or its local helpers" % fn.key, undecided=True)
            continue
        for c, owner_fn in calls:
            a = c.args[0] if c.args else None
            if isinstance(a, ast.Name):
                if a.id in owner_fn.params:
                    # a parameter of a nested helper: cast happens elsewhere
                    col.add(rule, fn, norm(c)[:60], True, "written array is a "
                            "helper's parameter", node=c, undecided=True)
                    continue
                vs = [d.value for d in local_defs(owner_fn.node).get(a.id, [])
                      if d.value is not None]
                if len(vs) == 1:
                    a = vs[0]
            ok = isinstance(a, ast.Call) and isinstance(a.func, ast.Attribute) \
                and a.func.attr == "astype" and kwarg(a, "casting") is not None \
                and kwarg(a, "casting").value == "equiv"
            col.add(rule, fn, norm(a)[:60] if a is not None else "-", ok,
                    "" if ok else "chunk is written without an 'equiv' cast "
                    "to the dataset dtype", node=c)


def empty_minishard_guard(repo, col):
    """An unused minishard has an empty index (start == end): the reader must
    not index element 0 of it."""
    rule = "E-EXC.B.empty-index"
    fn = repo.func("sharded_base", "ShardCMC.populate_minishard_dict")
    cfg = fn.cfg()
    owner = enclosing_stmt_map(fn.node)
    sites = [n for n in walk_local(fn.node) if isinstance(n, ast.Subscript)
             and isinstance(n.ctx, ast.Load) and const_int(n.slice) == 0
             and "minishard_index" in norm(n.value)]
    if not sites:
        col.add(rule, fn, "minishard_index[0]", True, "first-id lookup not "
                "in the recognised form", undecided=True)
        return
    defs = local_defs(fn.node)
    for s in sites:
        sn = cfg.node_of(owner.get(id(s)))
        ok = False
        for st in stmts_of(fn.node):
            if isinstance(st, ast.If) and st.body and isinstance(
                    st.body[-1], (ast.Continue, ast.Raise, ast.Return)):
                t = norm(st.test)
                from .dataflow import single_defs as _sd, expand as _ex
                te = norm(_ex(st.test, _sd(fn.node), depth=3))
                # "this byte range / index is empty": a zero test on a
                # difference, a length or a count
                if ("length" in t or "len(" in te or "num_chunks" in te or
                        "end" in t or " - " in te or ".size" in te) and (
                            "== 0" in t or "not " in t or "==" in t
                            or "< 1" in t):
                    gn = cfg.node_of(st)
                    if gn is not None and sn is not None and \
                            gn.id in cfg.dominators()[sn.id]:
                        ok = True
                # `m = self._read(...)`; `if m is None: continue` where the
                # helper returns None for an empty byte range
                base = s.value
                while isinstance(base, ast.Attribute):
                    base = base.value
                if isinstance(base, ast.Name) and \
                        t in ("%s is None" % base.id, "not %s" % base.id):
                    from .core import resolve_local_call
                    for d in defs.get(base.id, []):
                        if not isinstance(d.value, ast.Call):
                            continue
                        h = resolve_local_call(fn, d.value)
                        if h is None:
                            continue
                        for hs in stmts_of(h.node):
                            if isinstance(hs, ast.If) and hs.body and \
                                    isinstance(hs.body[-1], ast.Return) and (
                                        hs.body[-1].value is None or norm(
                                            hs.body[-1].value) == "None"):
                                ht = norm(hs.test)
                                if ("length" in ht or "len(" in ht or
                                        "end" in ht) and (
                                            "==" in ht or "not " in ht
                                            or "< 1" in ht):
                                    gn = cfg.node_of(st)
                                    if gn is not None and sn is not None and \
                                            gn.id in cfg.dominators()[sn.id]:
                                        ok = True
        if not ok:
            # the loop runs over a local generator that yields only the
            # non-empty slots
            from .core import resolve_local_call
            from .rules_more3 import _tests_enclosing
            from .dataflow import single_defs as _sd2, expand as _ex2
            for lp in stmts_of(fn.node):
                if not (isinstance(lp, ast.For) and isinstance(lp.iter, ast.Call)
                        and any(x is s for x in ast.walk(lp))):
                    continue
                h = resolve_local_call(fn, lp.iter)
                if h is None:
                    continue
                ys = [x for x in stmts_of(h.node) if isinstance(x, ast.Expr)
                      and isinstance(x.value, (ast.Yield, ast.YieldFrom))]
                if not ys:
                    continue
                htab = _sd2(h.node)
                all_guarded = True
                for y in ys:
                    ctx = _tests_enclosing(h.node, y) or []
                    good = False
                    for t_, tr_ in ctx:
                        for a in holds(t_, tr_):
                            le = norm(_ex2(a.left, htab, depth=3))
                            if (" - " in le or "len(" in le) and (
                                    (a.op in ("!=", ">") and
                                     const_int(a.right) == 0) or
                                    a.op == "truthy" or
                                    (a.op == ">=" and const_int(a.right) == 1)):
                                good = True
                    all_guarded = all_guarded and good
                if all_guarded:
                    ok = True
        col.add(rule, fn, norm(s), ok, "empty (unused) minishards are skipped "
                "before their first id is read" if ok else
                "element 0 of a minishard index is read without checking that "
                "the minishard is non-empty: a shard with an unused minishard "
                "raises IndexError and none of its chunks can be read",
                node=s)


def convert_loop_flow(repo, col):
    """convert_chunks: every destination chunk is read -> transformed ->
    written; all destination scales are visited; the source is only read."""
    rule = "E-ORDER.convert"
    top = repo.func("scripts.convert_chunks", "convert_chunks_for_scale")
    # the function that writes (the loop body may have been extracted)
    fn = top
    for h in helper_closure(top):
        if any(isinstance(c.func, ast.Attribute) and c.func.attr == "write_chunk"
               for c in calls_in(h.node)):
            fn = h
            break
    defs = local_defs(fn.node)
    wc = [c for c in calls_in(fn.node) if isinstance(c.func, ast.Attribute)
          and c.func.attr == "write_chunk"]
    if not wc:
        col.add(rule, top, "write_chunk(transform(read_chunk(...)))", True,
                "no write_chunk call in %s or its helpers" % top.key,
                undecided=True)
    for c in wc:
        if not c.args:
            continue
        clos = closure_names(fn.node, names_in(c.args[0]), defs)
        src_nodes = [d.value for n in clos for d in defs.get(n, [])
                     if d.value is not None] + [c.args[0]]
        reads = any(isinstance(x, ast.Call) and isinstance(x.func, ast.Attribute)
                    and x.func.attr == "read_chunk"
                    for v in src_nodes for x in walk_local(v))
        # the transformer: a callable parameter applied to the chunk
        transforms = any(isinstance(x, ast.Call) and isinstance(x.func, ast.Name)
                         and (x.func.id in fn.params or "transform" in x.func.id)
                         for v in src_nodes for x in walk_local(v))
        ok = reads and transforms
        und = not ok and any(n_ in fn.params for n_ in clos) and fn is not top
        col.add(rule, fn, "write_chunk(transform(read_chunk(...)))", ok or und,
                "" if ok else "the written chunk does not derive from "
                "chunk_transformer(chunk_reader.read_chunk(...))", node=c,
                undecided=und and not ok)
        rcs = [rc for rc in calls_in(fn.node) if isinstance(rc.func, ast.Attribute)
               and rc.func.attr == "read_chunk" and len(rc.args) >= 2]
        same = len(c.args) >= 3 and any(
            norm(rc.args[1]) == norm(c.args[2]) and norm(rc.args[0]) == norm(c.args[1])
            for rc in rcs)
        col.add(rule, fn, "same key and coordinates read and written",
                same or not rcs,
                "" if same else "chunk is written under a key / coordinates "
                "other than those it was read from", node=c,
                undecided=not same and not rcs)
    # methods used on reader / writer
    allowed_r = {"read_chunk", "scale_is_lossy", "info", "scale_info"}
    allowed_w = {"write_chunk", "info", "scale_info"}
    for recv, allowed, what in (("chunk_reader", allowed_r, "source"),
                                ("chunk_writer", allowed_w, "destination")):
        if recv not in fn.params and recv not in top.params:
            continue
        used = {n.attr for n in walk_local(fn.node) if isinstance(n, ast.Attribute)
                and isinstance(n.value, ast.Name) and n.value.id == recv}
        extra = used - allowed
        bad = extra & {"write_chunk", "store_chunk", "store_file"} if \
            what == "source" else set()
        col.add(rule, fn, "%s used through %s" % (recv, sorted(used)),
                not extra, "" if not extra else
                ("the source dataset is written to (%s)" % sorted(bad)) if bad
                else "%s is accessed through %s, which bypasses the decode -> "
                "convert -> encode path" % (recv, sorted(extra)),
                undecided=bool(extra) and not bad)
    drv = repo.func("scripts.convert_chunks", "convert_chunks")
    t = ftext(drv)
    ok = "for scale_index in reversed(range(len(dest_info['scales'])))" in t or \
        "for scale_index in range(len(dest_info['scales']))" in t
    col.add(rule, drv, "every destination scale converted", ok, "" if ok else
            "not all destination scales are converted", undecided=not ok and
            "scales" in t)
    okr = "get_accessor_for_url(source_url)" in t.replace(" ", "").replace(
        "\n", "") or "get_accessor_for_url( source_url )" in t or \
        "get_accessor_for_url(source_url" in t.replace("( ", "(")
    src_stores = [c for c in calls_in(drv.node) if "source_accessor" in
                  norm(c.func) and isinstance(c.func, ast.Attribute)
                  and c.func.attr.startswith("store")]
    col.add(rule, drv, "source accessor never stored to", not src_stores,
            "" if not src_stores else "the source accessor is written to")
    tr = "get_chunk_dtype_transformer(source_info['data_type'], " \
        "dest_info['data_type'])" in t
    col.add(rule, drv, "transformer(source type -> destination type)", tr,
            "" if tr else "dtype transformer is not built from the source and "
            "destination data types", undecided=not tr)


def downscaler_templates(repo, col):
    rule = "E-SPEC.downscale"
    mj = repo.func("downscaling", "MajorityDownscaler.downscale")
    t = ftext(mj)
    ok = "labels, counts = np.unique(block.flat, return_counts=True)" in t and \
        "labels[np.argmax(counts)]" in t
    col.add(rule, mj, "labels[argmax(counts)] of np.unique(block)", ok,
            "most frequent label; np.unique sorts, argmax takes the first "
            "maximum, so ties go to the smallest label" if ok else
            "majority vote is not labels[np.argmax(counts)] over "
            "np.unique(block, return_counts=True)", undecided=not ok)
    okb = all(("%sd:%sd + downscaling_factors[%d]" % (a, a, k)) in t
              for a, k in (("z", 2), ("y", 1), ("x", 0)))
    col.add(rule, mj, "block = chunk[t, zd:zd+Dz, yd:yd+Dy, xd:xd+Dx]", okb,
            "" if okb else "source block of an output voxel is not the "
            "factor-sized block at its origin", undecided=not okb)
    # a label wins outright only with strictly more than half of the block
    dm = repo.module("downscaling")
    for f in dm.functions.values():
        if f.cls is None or f.cls.name != "MajorityDownscaler":
            continue
        for n in walk_local(f.node):
            if isinstance(n, ast.Compare) and len(n.ops) == 1 and \
                    isinstance(n.ops[0], (ast.GtE, ast.LtE)):
                txt = norm(n)
                if ("2 *" in txt or "* 2" in txt or "/ 2" in txt or
                        "// 2" in txt) and ("size" in txt or "count" in txt):
                    col.add(rule + ".strict-majority", f, txt, False,
                            "`%s` declares a label the winner with exactly "
                            "half of the block: ties must go to the smallest "
                            "label, so a shortcut needs strictly more than "
                            "half" % txt, node=n)
    st = repo.func("downscaling", "StridingDownscaler.downscale")
    t = ftext(st)
    oks = "chunk[:, ::downscaling_factors[2], ::downscaling_factors[1], " \
        "::downscaling_factors[0]]" in t
    col.add(rule, st, "chunk[:, ::Dz, ::Dy, ::Dx]", oks, "first voxel of each "
            "block" if oks else "striding is not chunk[:, ::Dz, ::Dy, ::Dx]",
            undecided=not oks)
    for cls in ("StridingDownscaler", "AveragingDownscaler",
                "MajorityDownscaler"):
        fn = repo.func("downscaling", cls + ".downscale")
        t = ftext(fn)
        from .core import helper_closure
        okc = any("if not self.check_factors(" in ftext(h) and
                  "raise NotImplementedError" in ftext(h)
                  for h in helper_closure(fn))
        col.add(rule, fn, "unsupported factors raise", okc, "" if okc else
                "%s no longer rejects unsupported factors" % cls,
                undecided=not okc and "check_factors" in
                " ".join(ftext(h) for h in helper_closure(fn)))
    av = repo.func("downscaling", "AveragingDownscaler.check_factors")
    oka = "all((f in (1, 2) for f in downscaling_factors))" in ftext(av)
    col.add(rule, av, "averaging supports factors 1 and 2 only", oka,
            "" if oka else "averaging downscaler accepts factors it does not "
            "implement", undecided=not oka)
    ini = repo.func("downscaling", "AveragingDownscaler.__init__")
    t = ftext(ini)
    okp = "self.padding_mode = 'edge'" in t and \
        "self.padding_mode = 'constant'" in t and \
        "'constant_values': outside_value" in t
    col.add(rule, ini, "edge padding, or constant padding with the outside "
            "value", okp, "" if okp else "border padding modes changed",
            undecided=not okp)
    gd = repo.func("downscaling", "get_downscaler")
    t = ftext(gd)
    okg = "if info['type'] == 'image': return get_downscaler('average'" in t \
        and "return get_downscaler('stride'" in t
    col.add(rule, gd, "auto = average for images, stride for segmentations",
            okg, "" if okg else "'auto' no longer resolves from info['type']",
            undecided=not okg)
