"""Obligations, findings, known-findings matching, evidence files, exit codes."""
import json
import os
import time

VERIF = os.path.dirname(os.path.dirname(os.path.abspath(__file__)))
KNOWN_FILE = os.path.join(VERIF, "known_findings.json")

OK, FAIL, UNDECIDED = "ok", "fail", "undecided"


class Obligation:
    __slots__ = ("rule", "site", "construct", "status", "detail", "loc",
                 "nontrivial", "path")

    def __init__(self, rule, site, construct, status, detail="", loc="",
                 nontrivial=True, path=None):
        self.rule = rule            # e.g. "E-BOUND.strict"
        self.site = site            # "module:qualname"
        self.construct = construct  # normalised construct text (key part)
        self.status = status
        self.detail = detail
        self.loc = loc              # file:line (diagnosis only, not a key)
        self.nontrivial = nontrivial
        self.path = path            # optional counter-example path

    @property
    def key(self):
        return "%s|%s|%s" % (self.rule, self.site, self.construct)

    def as_dict(self):
        d = {"rule": self.rule, "site": self.site,
             "construct": self.construct, "verdict": self.status}
        if self.detail:
            d["detail"] = self.detail
        if self.loc:
            d["loc"] = self.loc
        if self.path:
            d["path"] = self.path
        return d


class Collector:
    """Collects the obligations of one property check."""

    def __init__(self, prop):
        self.prop = prop
        self.obs = []
        self.rule_counts = {}
        self.floors = {}
        self.notes = []
        self.assumptions = []
        self.undecided_clauses = []
        self.clauses = []
        self.low = []

    def add(self, rule, fn_or_site, construct, ok, detail="", node=None,
            nontrivial=True, path=None, undecided=False, loc=""):
        if hasattr(fn_or_site, "key"):
            site = fn_or_site.key
            loc = fn_or_site.loc(node) if hasattr(fn_or_site, "loc") else ""
        else:
            site = fn_or_site
        status = UNDECIDED if undecided else (OK if ok else FAIL)
        o = Obligation(rule, site, construct, status, detail, loc,
                       nontrivial, path)
        self.obs.append(o)
        self.rule_counts[rule] = self.rule_counts.get(rule, 0) + 1
        return o

    def floor(self, rule, minimum):
        """Vacuity floor: rule must have produced at least `minimum`
        obligations, else the analysis is broken (exit 2)."""
        self.floors[rule] = minimum

    def note(self, text):
        self.notes.append(text)

    def check_floors(self):
        bad = []
        for rule, minimum in self.floors.items():
            # prefix match so a floor on "E-AXIS" covers "E-AXIS.*"
            n = sum(c for r, c in self.rule_counts.items()
                    if r == rule or r.startswith(rule + "."))
            # a rule that said "this shape is not one I recognise"
            # (UNDECIDED, printed) has not silently matched nothing
            if any(o.status == UNDECIDED and (o.rule == rule or
                                              o.rule.startswith(rule + ".") or
                                              rule.startswith(o.rule + "."))
                   for o in self.obs):
                continue
            if n == 0 and any(o.rule == "E-ANCHOR" for o in self.obs) and \
                    any(o.status == OK and o.nontrivial for o in self.obs):
                # the rule family's anchor is gone (said so, UNDECIDED) while
                # other rules of the property still decided something
                self.low.append((rule, n, minimum))
            elif n == 0:
                bad.append("%s: %d obligations < floor %d" % (rule, n, minimum))
            elif n < minimum:
                # the rule family still found constructs to decide, but fewer
                # than on the reference tree: the code was reorganised into a
                # shape part of the family does not follow.  That is reduced
                # coverage to report, not a broken analysis.
                self.low.append((rule, n, minimum))
        return bad


def load_known():
    if not os.path.exists(KNOWN_FILE):
        return {"known": [], "fixed": []}
    with open(KNOWN_FILE) as f:
        return json.load(f)


def match_known(prop, ob, known):
    for k in known.get("known", []):
        if k.get("status", "known") != "known":
            continue
        if k["property"] == prop and k["rule"] == ob.rule \
                and k["site"] == ob.site and k["construct"] == ob.construct:
            return k
    return None


def finish(col, tier, seed, t0, level_text, technique, extra_cov=None):
    """Print verdict lines, write evidence and violation report; return the
    process exit status."""
    prop = col.prop
    known = load_known()
    fails = [o for o in col.obs if o.status == FAIL]
    undec = [o for o in col.obs if o.status == UNDECIDED]
    known_hits, violations = [], []
    for o in fails:
        k = match_known(prop, o, known)
        (known_hits if k else violations).append((o, k))
    floors_bad = col.check_floors()

    out_dir = os.path.join(VERIF, "out")
    os.makedirs(out_dir, exist_ok=True)
    ev_dir = os.path.join(VERIF, "evidence")
    os.makedirs(ev_dir, exist_ok=True)

    if floors_bad:
        for b in floors_bad:
            print("ANALYSIS-ERROR property=%s vacuity floor not met: %s"
                  % (prop, b))
        return 2

    printed = set()
    for o, k in known_hits:
        if o.key in printed:        # one line per listed finding
            continue
        printed.add(o.key)
        print("KNOWN-FINDING: property=%s %s [%s at %s: %s]"
              % (prop, k.get("what", o.detail), o.rule, o.site, o.construct))
    for o in undec:
        print("UNDECIDED: property=%s %s at %s: %s (%s)"
              % (prop, o.rule, o.site, o.construct, o.detail))
    for rule, n, minimum in col.low:
        print("UNDECIDED: property=%s %s coverage: %d obligations where the "
              "reference tree has at least %d (part of the code is in a shape "
              "this rule family does not follow)" % (prop, rule, n, minimum))

    replay = os.path.join(out_dir, "%s.violations.json" % prop)
    scratch = bool(os.environ.get("NGS_NO_EVIDENCE"))
    if scratch:
        replay = os.path.join(out_dir, "scratch.%s.violations.json" % prop)
    if violations:
        with open(replay, "w") as f:
            json.dump({"property": prop,
                       "violations": [o.as_dict() for o, _ in violations]},
                      f, indent=1)
        print("VIOLATION property=%s replay=%s" % (prop, replay))
        for o, _ in violations:
            print("  %s %s rule=%s construct=%s :: %s"
                  % (o.loc or "-", o.site, o.rule, o.construct, o.detail))
            if o.path:
                print("    path: " + " -> ".join(o.path))
    elif os.path.exists(replay):
        os.remove(replay)

    # ---- evidence ---------------------------------------------------
    distinct = {}
    for o in col.obs:
        if o.nontrivial:
            distinct[o.key] = o
    discharged = sum(1 for o in col.obs if o.status == OK)
    # samples: spread over rules, deterministic order rotated by seed
    by_rule = {}
    for o in col.obs:
        by_rule.setdefault(o.rule, []).append(o)
    samples = []
    for rule in sorted(by_rule):
        lst = by_rule[rule]
        for j in range(min(2, len(lst))):
            samples.append(lst[(seed + j * 7) % len(lst)].as_dict())
    samples = samples[:40]
    for o in fails:
        d = o.as_dict()
        if d not in samples:
            samples.append(d)
    cov = {
        "explanation": level_text,
        "technique": technique,
        "evaluations": len(col.obs),
        "distinct_nontrivial": len(distinct),
        "rule": "one evaluation = one obligation (rule instance at a named "
                "construct of /repo's current source); distinct = distinct "
                "(rule, site, normalised construct) keys; non-trivial = the "
                "obligation constrained real code (not a vacuous/no-op match)",
        "obligations": len(col.obs),
        "discharged": discharged,
        "failed_known": len(known_hits),
        "failed_new": len(violations),
        "undecided": [o.as_dict() for o in undec],
        "reduced_coverage": [{"rule": r, "obligations": n, "reference": m}
                             for r, n, m in col.low],
        "samples": samples,
        "rules": {r: {"sites": c,
                      "floor": next((fl for fr, fl in col.floors.items()
                                     if r == fr or r.startswith(fr + ".")),
                                    None)}
                  for r, c in sorted(col.rule_counts.items())},
        "decided_clauses": col.clauses,
        "undecided_clauses": col.undecided_clauses,
        "notes": col.notes,
        "exhaustive": False,
    }
    if extra_cov:
        cov.update(extra_cov)
    ev = {
        "property_id": prop,
        "tier": tier,
        "seed": seed,
        "level": "other",
        "coverage": cov,
        "assumptions": col.assumptions,
        "wall_s": round(time.time() - t0, 3),
        "violations": len(violations),
    }
    if not scratch:
        with open(os.path.join(ev_dir, "%s.json" % prop), "w") as f:
            json.dump(ev, f, indent=1, sort_keys=False)
    print("property=%s tier=%s obligations=%d discharged=%d known=%d "
          "violations=%d undecided=%d wall=%.2fs"
          % (prop, tier, len(col.obs), discharged, len(known_hits),
             len(violations), len(undec), time.time() - t0))
    return 1 if violations else 0
