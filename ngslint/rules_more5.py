"""Round-9 rules: defects that arrive with optimisations, new options and
de-duplications (caches, forwarded options, numpy promotion traps, ...).

Same policy as everywhere: FAIL names a positively wrong construct; a shape
that is not recognised yields nothing or UNDECIDED."""
import ast

from .core import (norm, walk_local, call_name, calls_in, kwarg, const_int, dotted,
                   helper_closure, resolve_local_call, stmts_of,
                   enclosing_stmt_map)
from .dataflow import local_defs, names_in, closure_names
from .rules_more4 import resolve_pkg_call


# ---------------------------------------------------------------------
def _loop_assigned(loop):
    out = set()
    for n in ast.walk(loop):
        if isinstance(n, ast.Name) and isinstance(n.ctx, ast.Store):
            out.add(n.id)
    return out


def cache_key_complete(repo, col, shorts):
    """A value stored in a cache under a key is handed out again for every
    later request with that key: whatever the value is computed from, and
    that can differ between two requests, has to be part of the key."""
    rule = "E-CACHE.key"
    n = 0
    for ms in shorts:
        try:
            m = repo.module(ms)
        except Exception:
            continue
        mod_dicts = set()
        for cname, cval in m.constants.items():
            if isinstance(cval, ast.Dict) and not cval.keys or (
                    isinstance(cval, ast.Call) and
                    (call_name(cval) or "").split(".")[-1] in (
                        "dict", "OrderedDict", "WeakValueDictionary")
                    and not cval.args):
                mod_dicts.add(cname)
        for fn in m.functions.values():
            defs = local_defs(fn.node)
            owner = enclosing_stmt_map(fn.node)
            local_dicts = {}
            for name, ds in defs.items():
                real = [d for d in ds if d.kind != "param"]
                if len(real) == 1 and real[0].kind == "assign" and \
                        real[0].index is None and (
                            (isinstance(real[0].value, ast.Dict) and
                             not real[0].value.keys) or
                            (isinstance(real[0].value, ast.Call) and
                             call_name(real[0].value) == "dict" and
                             not real[0].value.args)):
                    local_dicts[name] = real[0].stmt
            loops = [x for x in ast.walk(fn.node)
                     if isinstance(x, (ast.For, ast.While))]
            for st in ast.walk(fn.node):
                if not (isinstance(st, ast.Assign) and len(st.targets) == 1
                        and isinstance(st.targets[0], ast.Subscript)
                        and isinstance(st.targets[0].value, ast.Name)):
                    continue
                cache = st.targets[0].value.id
                key = st.targets[0].slice
                if cache in mod_dicts and cache not in defs:
                    varying = set(defs) - {"self", "cls"}
                elif cache in local_dicts:
                    # the cache outlives the iterations of the loops that
                    # contain the store but not the dict's creation
                    varying = set()
                    for lp in loops:
                        inside = {id(x) for x in ast.walk(lp)}
                        if id(st) in inside and \
                                id(local_dicts[cache]) not in inside:
                            varying |= _loop_assigned(lp)
                    if not varying:
                        continue
                else:
                    continue
                # the same key is used to look the value up again
                ktxt = norm(key)
                looked_up = False
                for x in ast.walk(fn.node):
                    if isinstance(x, ast.Subscript) and x is not st.targets[0] \
                            and isinstance(x.value, ast.Name) and \
                            x.value.id == cache and norm(x.slice) == ktxt and \
                            isinstance(x.ctx, ast.Load):
                        looked_up = True
                    if isinstance(x, ast.Call) and \
                            isinstance(x.func, ast.Attribute) and \
                            x.func.attr in ("get", "setdefault", "pop") and \
                            isinstance(x.func.value, ast.Name) and \
                            x.func.value.id == cache and x.args and \
                            norm(x.args[0]) == ktxt:
                        looked_up = True
                    if isinstance(x, ast.Compare) and len(x.ops) == 1 and \
                            isinstance(x.ops[0], (ast.In, ast.NotIn)) and \
                            norm(x.left) == ktxt and \
                            norm(x.comparators[0]) == cache:
                        looked_up = True
                if not looked_up:
                    continue
                n += 1
                # names the key is made of (through single definitions)
                key_names = set(names_in(key))
                for nm in list(key_names):
                    for d in defs.get(nm, []):
                        if d.kind == "assign" and d.value is not None and \
                                isinstance(d.value, (ast.Tuple, ast.List,
                                                     ast.Call)):
                            # key = (a, b) / key = tuple(a) : its parts
                            key_names |= names_in(d.value)
                # what the value is computed from, down to key names / roots
                leaves = set()
                seen = set()
                work = list(names_in(st.value))
                while work:
                    nm = work.pop()
                    if nm in seen:
                        continue
                    seen.add(nm)
                    if nm in key_names or nm not in varying:
                        leaves.add(nm)
                        continue
                    ds = [d for d in defs.get(nm, []) if d.value is not None
                          and d.kind == "assign"]
                    sub = set()
                    for d in ds:
                        sub |= names_in(d.value)
                    sub -= {nm}
                    if not ds or not sub:
                        leaves.add(nm)
                    else:
                        work.extend(sub)
                missing = sorted(x for x in leaves
                                 if x in varying and x not in key_names
                                 and x != cache)
                # a record (dict / object) of which the key takes some fields
                # while the value is computed from the record as a whole: the
                # fields the computation reads have to be among them
                if not missing:
                    kexprs = [key] + [d.value for nm in names_in(key)
                                      for d in defs.get(nm, [])
                                      if d.kind == "assign" and
                                      d.value is not None]
                    for rec in sorted(key_names & varying):
                        kf, kwhole = set(), False
                        for e in kexprs:
                            f_, w_ = _fields_of(e, rec)
                            kf |= f_
                            kwhole = kwhole or w_
                        if kwhole or not kf:
                            continue
                        vf, complete = _fields_read_by(fn, st.value, rec)
                        extra = sorted(vf - kf)
                        if extra:
                            missing.append("%s[%s]" % (rec, ", ".join(
                                repr(x) for x in extra)))
                # callables / modules are not data
                missing = [x for x in missing if not (
                    x in m.functions or x in m.imports or x in m.classes)]
                col.add(rule, fn, "%s[%s] = %s" % (cache, ktxt[:30],
                                                   norm(st.value)[:30]),
                        not missing, "" if not missing else
                        "the value cached under `%s` is computed from %s, "
                        "which %s not part of the key: a later request that "
                        "differs only there gets the value computed for the "
                        "earlier one" % (ktxt[:40], ", ".join(
                            "`%s`" % x for x in missing),
                            "is" if len(missing) == 1 else "are"), node=st)
    col.add(rule, "package", "%d keyed caches" % n, True, "",
            nontrivial=False)


def _fields_of(expr, rec):
    """(constant fields of `rec` the expression reads, rec used whole)."""
    fields, whole = set(), False
    proj = set()
    for x in ast.walk(expr):
        if isinstance(x, ast.Subscript) and isinstance(x.value, ast.Name) and \
                x.value.id == rec and isinstance(x.slice, ast.Constant):
            fields.add(x.slice.value)
            proj.add(id(x.value))
        elif isinstance(x, ast.Call) and isinstance(x.func, ast.Attribute) and \
                x.func.attr == "get" and isinstance(x.func.value, ast.Name) \
                and x.func.value.id == rec and x.args and \
                isinstance(x.args[0], ast.Constant):
            fields.add(x.args[0].value)
            proj.add(id(x.func.value))
        elif isinstance(x, ast.Attribute) and isinstance(x.value, ast.Name) \
                and x.value.id == rec and x.attr != "get":
            fields.add(x.attr)
            proj.add(id(x.value))
    for x in ast.walk(expr):
        if isinstance(x, ast.Name) and x.id == rec and id(x) not in proj:
            whole = True
    return fields, whole


def _fields_read_by(fn, expr, rec, depth=0):
    """Fields of `rec` read by the computation `expr` in fn, following `rec`
    into the package functions it is passed to.  (fields, complete)."""
    fields, whole = _fields_of(expr, rec)
    complete = True
    if depth > 3:
        return fields, False
    for c in ast.walk(expr):
        if not isinstance(c, ast.Call):
            continue
        passed = [i for i, a in enumerate(c.args)
                  if isinstance(a, ast.Name) and a.id == rec]
        kw = [k.arg for k in c.keywords
              if isinstance(k.value, ast.Name) and k.value.id == rec and k.arg]
        if not passed and not kw:
            continue
        h = resolve_pkg_call(fn, c)
        targets = [h] if h is not None else []
        if h is None and isinstance(c.func, ast.Attribute):
            # a method of some class of the package (an interface with a
            # few implementations): any of them may run
            from .scope import GENERIC_METHODS
            if c.func.attr not in GENERIC_METHODS:
                targets = [cc.methods[c.func.attr]
                           for cc in fn.module.repo.all_classes()
                           if c.func.attr in cc.methods]
                if len(targets) > 6:
                    targets = []
        if not targets:
            complete = False
            continue
        for h in targets:
            ps = list(h.params)
            if ps and ps[0] in ("self", "cls") and isinstance(c.func,
                                                              ast.Attribute):
                ps = ps[1:]
            names = [ps[i] for i in passed if i < len(ps)] + kw
            for pn in names:
                if pn not in h.params:
                    continue
                body = ast.Module(body=h.node.body, type_ignores=[])
                f2, c2 = _fields_read_by(h, body, pn, depth + 1)
                fields |= f2
                complete = complete and c2
    return fields, complete


# ---------------------------------------------------------------------
def omitted_forward(repo, col, shorts):
    """A function that has a parameter p and calls a helper with an optional
    parameter of the same name without passing it lets the helper fall back
    to its default: the caller's p is silently ignored on that path."""
    rule = "E-SIB.forward"
    n = 0
    for ms in shorts:
        try:
            m = repo.module(ms)
        except Exception:
            continue
        for f in m.functions.values():
            own = set(f.params) - {"self", "cls"}
            if not own:
                continue
            direct = set()
            for c in calls_in(f.node):
                for x in list(c.args) + [k.value for k in c.keywords]:
                    if isinstance(x, ast.Name):
                        direct.add(id(x))
            consumed = {x.id for x in ast.walk(f.node)
                        if isinstance(x, ast.Name) and x.id in own and
                        isinstance(x.ctx, ast.Load) and id(x) not in direct}
            for c in calls_in(f.node):
                h = resolve_pkg_call(f, c)
                if h is None or h is f:
                    continue
                if any(k.arg is None for k in c.keywords) or \
                        any(isinstance(x, ast.Starred) for x in c.args):
                    continue
                a = h.node.args
                params = [x.arg for x in a.posonlyargs + a.args]
                if params and params[0] in ("self", "cls") and \
                        isinstance(c.func, ast.Attribute):
                    params = params[1:]
                nd = len(a.defaults)
                with_def = set(params[len(params) - nd:]) if nd else set()
                with_def |= {x.arg for x, d in zip(a.kwonlyargs, a.kw_defaults)
                             if d is not None}
                bound = set(params[:len(c.args)]) | \
                    {k.arg for k in c.keywords if k.arg}
                # the option travels inside another argument (a parameter
                # object built from it, a dict of options, ...)
                argnames = set()
                for x in list(c.args) + [k.value for k in c.keywords]:
                    argnames |= names_in(x)
                carried = closure_names(f.node, argnames)
                for p in sorted((with_def - bound) & own):
                    if p in carried and p not in argnames:
                        continue
                    if p in consumed:
                        # the caller acts on the option itself (tests it,
                        # computes with it): not a pure pass-through
                        continue
                    # only when the caller's p is otherwise unused or is
                    # forwarded by name elsewhere: it is the same option
                    n += 1
                    col.add(rule, f, "%s(...) without %s=" % (
                        h.qualname.split(".")[-1], p), False,
                        "%s has a parameter `%s` and calls %s, which takes an "
                        "optional `%s`, without passing it: on this path the "
                        "caller's value is ignored and the default (%s) is "
                        "used" % (f.qualname, p, h.qualname, p, norm(
                            dict(zip(params[len(params) - nd:], a.defaults))
                            .get(p, ast.Constant(value=None)))), node=c)
    col.add(rule, "package", "%d omitted same-named options" % n, True, "",
            nontrivial=False)


# ---------------------------------------------------------------------
def suppressing_context_in_main(repo, col):
    """A script's main() returns the status of its driver.  Under a context
    manager that swallows the error (its handler does not re-raise), the
    statement after the `with` is where a failed run continues: it has to
    return the failure status, not fall off the end of main()."""
    rule = "E-EXIT.suppressed"
    n = 0
    for m in repo.modules.values():
        if ".scripts." not in m.name:
            continue
        fn = m.functions.get("main")
        if fn is None:
            continue
        body = fn.node.body
        for i, st in enumerate(body):
            if not isinstance(st, ast.With):
                continue
            supp = None
            for it in st.items:
                c = it.context_expr
                if not isinstance(c, ast.Call):
                    continue
                h = resolve_pkg_call(fn, c)
                if h is None:
                    if (call_name(c) or "").endswith("suppress"):
                        supp = c
                    continue
                decos = [norm(d) for d in h.node.decorator_list]
                if not any("contextmanager" in d for d in decos):
                    continue
                for hd in ast.walk(h.node):
                    if isinstance(hd, ast.ExceptHandler):
                        from .core import block_always_raises
                        if not block_always_raises(hd.body):
                            supp = c
            if supp is None:
                continue
            n += 1
            rest = body[i + 1:]
            returns_status = any(
                isinstance(x, ast.Return) and x.value is not None and
                not (isinstance(x.value, ast.Constant) and
                     x.value.value in (None, 0))
                for r_ in rest for x in ast.walk(r_)) or any(
                isinstance(x, ast.Call) and
                (call_name(x) or "").endswith(("sys.exit", "exit"))
                for r_ in rest for x in ast.walk(r_))
            col.add(rule, fn, norm(supp)[:60], returns_status,
                    "" if returns_status else
                    "`%s` swallows the error of the enclosed command; "
                    "nothing after the with-block returns a failure status, "
                    "so main() returns None and the process exits 0 although "
                    "the command failed" % norm(supp)[:40], node=st)
    col.add(rule, "package", "%d suppressing contexts in main()" % n, True, "",
            nontrivial=False)


# ---------------------------------------------------------------------
INDEX_FUNCS = {"argmax", "argmin", "flatnonzero", "nonzero", "arange",
               "searchsorted", "argsort", "indices", "argwhere", "bincount"}


def index_plus_label_promotion(repo, col, shorts):
    """NumPy has no integer type that holds both uint64 and int64: adding an
    index array (int64, from argmax / flatnonzero / arange ...) to a uint64
    label gives float64, which rounds labels above 2**53.  Index results are
    cast to the data's dtype before they are combined with data values."""
    rule = "E-DTYPE.index-add"
    n = 0
    for ms in shorts:
        try:
            m = repo.module(ms)
        except Exception:
            continue
        for fn in m.functions.values():
            defs = local_defs(fn.node)
            params = set(fn.params) - {"self", "cls"}

            def is_index(e, depth=0):
                """Expression whose dtype is the platform index type."""
                if isinstance(e, ast.Call):
                    nm = (call_name(e) or "").split(".")[-1]
                    if nm in ("astype", "asarray", "array") and (
                            e.args[1:] or kwarg(e, "dtype") is not None or
                            nm == "astype"):
                        return False
                    if nm in INDEX_FUNCS and kwarg(e, "dtype") is None:
                        return True
                    if nm in ("int", "len"):
                        return False        # Python int: weak promotion
                    return False
                if isinstance(e, ast.Subscript):
                    return is_index(e.value, depth)
                if isinstance(e, ast.Name) and depth < 3:
                    ds = [d for d in defs.get(e.id, []) if d.value is not None
                          and d.kind == "assign"]
                    return bool(ds) and all(is_index(d.value, depth + 1)
                                            for d in ds)
                return False

            def is_data(e):
                """A value taken from the function's array arguments."""
                nms = names_in(e)
                # a scalar handed in by the caller that took it from the data
                # (lowest_label = chunk.min() in the caller)
                for nm in nms & params:
                    for g in m.functions.values():
                        for c in calls_in(g.node):
                            if resolve_local_call(g, c) is not fn:
                                continue
                            ps = [p for p in fn.params
                                  if p not in ("self", "cls")]
                            if isinstance(c.func, ast.Attribute) and \
                                    fn.params[:1] in (["self"], ["cls"]):
                                pass
                            idx = ps.index(nm) if nm in ps else None
                            if idx is None or idx >= len(c.args):
                                continue
                            a = c.args[idx]
                            gdefs = local_defs(g.node)
                            srcs = [a] + [
                                d.value for n2 in closure_names(
                                    g.node, names_in(a), gdefs)
                                for d in gdefs.get(n2, [])
                                if d.value is not None]
                            for s_ in list(srcs):
                                if isinstance(s_, ast.Call):
                                    h2 = resolve_local_call(g, s_)
                                    if h2 is not None:
                                        srcs += [r.value for r in
                                                 stmts_of(h2.node)
                                                 if isinstance(r, ast.Return)
                                                 and r.value is not None]
                                        hd = local_defs(h2.node)
                                        srcs += [d.value for r in
                                                 stmts_of(h2.node)
                                                 if isinstance(r, ast.Return)
                                                 and r.value is not None
                                                 for n3 in closure_names(
                                                     h2.node,
                                                     names_in(r.value), hd)
                                                 for d in hd.get(n3, [])
                                                 if d.value is not None]
                            if any(isinstance(x, ast.Call) and (
                                    call_name(x) or "").split(".")[-1] in (
                                        "min", "max", "amin", "amax")
                                    for s_ in srcs for x in ast.walk(s_)):
                                return True
                clos = closure_names(fn.node, nms, defs) | nms
                if not (clos & params):
                    return False
                t = norm(e)
                # reductions / elements of the data keep its dtype
                return any(isinstance(x, ast.Call) and (
                    call_name(x) or "").split(".")[-1] in (
                        "min", "max", "amin", "amax") for x in ast.walk(e)) \
                    or any(any(isinstance(x, ast.Call) and (
                        call_name(x) or "").split(".")[-1] in (
                            "min", "max", "amin", "amax")
                        for x in ast.walk(d.value))
                        for nm in nms for d in defs.get(nm, [])
                        if d.value is not None)
            for x in walk_local(fn.node):
                if isinstance(x, ast.BinOp) and isinstance(x.op, (ast.Add,
                                                                   ast.Sub)):
                    for a, b in ((x.left, x.right), (x.right, x.left)):
                        if is_index(a) and is_data(b):
                            n += 1
                            col.add(rule, fn, norm(x)[:70], False,
                                    "`%s` is an index array (int64) and `%s` "
                                    "a value of the data's own type: for "
                                    "uint64 data NumPy promotes the sum to "
                                    "float64 and labels above 2**53 are "
                                    "rounded" % (norm(a)[:40], norm(b)[:30]),
                                    node=x)
                            break
    col.add(rule, "package", "%d index + data sums" % n, True, "",
            nontrivial=False)


# ---------------------------------------------------------------------
def asarray_alias_inplace(repo, col, shorts):
    """np.asarray(x, dtype=float) returns x itself when x already has that
    type: an in-place operation on the result then changes the caller's
    array."""
    rule = "E-OWN.asarray-alias"
    n = 0
    for ms in shorts:
        try:
            m = repo.module(ms)
        except Exception:
            continue
        for fn in m.functions.values():
            defs = local_defs(fn.node)
            params = set(fn.params) - {"self", "cls"}
            if not params:
                continue
            low = fn.qualname.lower()
            if "inplace" in low or low.endswith("_into") or "out" in params:
                continue
            aliases = {}
            for name, ds in defs.items():
                real = [d for d in ds if d.kind == "assign" and
                        d.value is not None and d.index is None]
                if not real or len(real) != len([d for d in ds
                                                 if d.kind not in ("param",
                                                                   "aug")]):
                    continue
                srcs = set()
                for d in real:
                    v = d.value
                    if isinstance(v, ast.Call) and \
                            (call_name(v) or "").split(".")[-1] in (
                                "asarray", "asanyarray") and v.args and \
                            isinstance(v.args[0], ast.Name) and \
                            v.args[0].id in params:
                        srcs.add(v.args[0].id)
                    else:
                        srcs.add(None)
                if srcs and None not in srcs:
                    aliases[name] = sorted(srcs)[0]
            if not aliases:
                continue
            from .dataflow import control_names
            for st in stmts_of(fn.node):
                tgt = None
                if isinstance(st, ast.AugAssign):
                    t = st.target
                    while isinstance(t, ast.Subscript):
                        t = t.value
                    if isinstance(t, ast.Name):
                        tgt = t.id
                elif isinstance(st, ast.Assign) and \
                        isinstance(st.targets[0], ast.Subscript):
                    t = st.targets[0]
                    while isinstance(t, ast.Subscript):
                        t = t.value
                    if isinstance(t, ast.Name):
                        tgt = t.id
                if tgt not in aliases:
                    continue
                # deliberately in place when a parameter decides it
                ctl = closure_names(fn.node, control_names(fn.node, st), defs)
                if ctl & (params - {aliases[tgt]}):
                    continue
                n += 1
                col.add(rule, fn, norm(st)[:70], False,
                        "`%s` may be the caller's own array `%s` (np.asarray "
                        "does not copy when the type already matches): `%s` "
                        "changes it in place" % (tgt, aliases[tgt],
                                                 norm(st)[:40]), node=st)
    col.add(rule, "package", "%d in-place operations on asarray results" % n,
            True, "", nontrivial=False)


# ---------------------------------------------------------------------
def float_scale_factor(repo, col):
    """mesh-to-precomputed converts millimetres to nanometres by multiplying
    the point array: with an integer factor an integer-typed point array stays
    integer and overflows (int32 above 2147 mm)."""
    rule = "E-TABLE.units.float"
    fn = repo.func("scripts.mesh_to_precomputed", "mesh_file_to_precomputed")
    n = 0

    def int_valued(e, f, depth=0):
        """True/False/None: the scale expression is an exact Python int."""
        if isinstance(e, ast.Constant):
            return isinstance(e.value, int) and not isinstance(e.value, bool) \
                if isinstance(e.value, (int, float)) else None
        if isinstance(e, ast.BinOp) and isinstance(e.op, (ast.Pow, ast.Mult)):
            l, r = int_valued(e.left, f, depth), int_valued(e.right, f, depth)
            if l is None or r is None:
                return None
            return l and r
        if isinstance(e, ast.Call):
            nm = (call_name(e) or "").split(".")[-1]
            if nm == "float":
                return False
            if nm == "int":
                return True
            return None
        if isinstance(e, ast.Subscript) and depth < 3:
            tv = f.module.const(e.value.id) if isinstance(e.value, ast.Name) \
                else None
            if isinstance(tv, ast.Dict) and tv.values:
                vs = [int_valued(v, f, depth + 1) for v in tv.values]
                if all(v is True for v in vs):
                    return True
                if all(v is False for v in vs):
                    return False
            return None
        if isinstance(e, ast.Name) and depth < 3:
            v = f.module.const(e.id)
            if v is not None and e.id not in local_defs(f.node):
                return int_valued(v, f, depth + 1)
            ds = [d for d in local_defs(f.node).get(e.id, [])
                  if d.value is not None and d.kind == "assign"]
            if len(ds) == 1:
                return int_valued(ds[0].value, f, depth + 1)
        return None
    for f in helper_closure(fn, 2):
        for x in walk_local(f.node):
            if isinstance(x, ast.BinOp) and isinstance(x.op, ast.Mult):
                for a, b in ((x.left, x.right), (x.right, x.left)):
                    t = norm(b).lower()
                    if not ("point" in t or "vertices" in t or "coord" in t):
                        continue
                    iv = int_valued(a, f)
                    if iv is None:
                        continue
                    n += 1
                    col.add(rule, f, norm(x)[:60], not iv, "" if not iv else
                            "the scale `%s` is an exact integer: multiplied "
                            "with an integer-typed point array the product "
                            "stays in that integer type and wraps (int32 "
                            "coordinates above 2147 mm), where the float "
                            "factor 1e6 promoted it to float64"
                            % norm(a)[:30], node=x)
    if n == 0:
        col.add(rule, fn, "unit scale * points", True,
                "no scaling of the point array recognised", undecided=True)


# ---------------------------------------------------------------------
def remainder_any(repo, col):
    """scale-stats: the number of chunks along an axis is one more than the
    number of full chunks exactly when THAT axis has leftover voxels.
    Reducing the per-axis remainders with any() adds the partial chunk to
    every axis."""
    rule = "E-TILE.stats.remainder-any"
    fn = repo.func("scripts.scale_stats", "show_scales_info")
    n = 0
    for f in helper_closure(fn, 3):
        defs = local_defs(f.node)
        rem = set()
        for name, ds in defs.items():
            for d in ds:
                v = d.value
                if v is None:
                    continue
                if isinstance(v, ast.Call) and \
                        (call_name(v) or "").split(".")[-1] == "divmod" and \
                        d.index == 1:
                    rem.add(name)
                if isinstance(v, ast.BinOp) and isinstance(v.op, ast.Mod):
                    rem.add(name)
                if isinstance(v, ast.Call) and \
                        (call_name(v) or "").split(".")[-1] in (
                            "mod", "remainder", "fmod"):
                    rem.add(name)
        for x in walk_local(f.node):
            red = None
            if isinstance(x, ast.Call) and isinstance(x.func, ast.Attribute) \
                    and x.func.attr == "any" and not x.args and \
                    names_in(x.func.value) & rem:
                red = x
            if isinstance(x, ast.Call) and \
                    (call_name(x) or "") in ("any", "np.any", "numpy.any") \
                    and x.args and names_in(x.args[0]) & rem and not \
                    isinstance(x.args[0], (ast.GeneratorExp, ast.ListComp)):
                red = x
            if red is not None:
                n += 1
                col.add(rule, f, norm(red)[:50], False,
                        "`%s` is true as soon as ONE axis has leftover "
                        "voxels; used to add the partial chunk it adds one "
                        "chunk along every axis, so scales that are a "
                        "multiple of the chunk size on some axes only are "
                        "over-counted" % norm(red)[:40], node=red)
    col.add(rule, fn, "%d any() reductions of per-axis remainders" % n, True,
            "", nontrivial=False)


# ---------------------------------------------------------------------
def unbuffered_write_unchecked(repo, col, shorts):
    """open(..., buffering=0) returns a raw FileIO whose write() may store
    only part of the data and report the count: ignoring the count turns a
    full disk into a silently truncated file."""
    rule = "E-RES.unbuffered"
    n = 0
    for ms in shorts:
        try:
            m = repo.module(ms)
        except Exception:
            continue
        for fn in m.functions.values():
            raws = set()
            for w in ast.walk(fn.node):
                items = []
                if isinstance(w, ast.With):
                    items = [(it.context_expr, it.optional_vars)
                             for it in w.items]
                elif isinstance(w, ast.Assign) and len(w.targets) == 1:
                    items = [(w.value, w.targets[0])]
                for c, v in items:
                    if not (isinstance(c, ast.Call) and isinstance(v, ast.Name)):
                        continue
                    nm = call_name(c) or ""
                    if not (nm in ("open", "io.open") or
                            (isinstance(c.func, ast.Attribute) and
                             c.func.attr == "open")):
                        continue
                    b = kwarg(c, "buffering")
                    mode = kwarg(c, "mode") or (
                        c.args[1] if nm in ("open", "io.open") and
                        len(c.args) > 1 else (c.args[0] if c.args and
                                              nm not in ("open", "io.open")
                                              else None))
                    if b is not None and const_int(b) == 0 and \
                            isinstance(mode, ast.Constant) and \
                            isinstance(mode.value, str) and \
                            any(ch in mode.value for ch in "wax+"):
                        raws.add(v.id)
            for st in stmts_of(fn.node):
                if isinstance(st, ast.Expr) and isinstance(st.value, ast.Call) \
                        and isinstance(st.value.func, ast.Attribute) and \
                        st.value.func.attr == "write" and \
                        isinstance(st.value.func.value, ast.Name) and \
                        st.value.func.value.id in raws:
                    n += 1
                    col.add(rule, fn, norm(st.value)[:60], False,
                            "`%s` is opened unbuffered: this write() may "
                            "store fewer bytes than given and its return "
                            "value is dropped, so a write that stops at a "
                            "full disk or a size limit passes unnoticed"
                            % st.value.func.value.id, node=st)
    col.add(rule, "package", "%d unchecked writes to unbuffered files" % n,
            True, "", nontrivial=False)


# ---------------------------------------------------------------------
def cmc_entry_nonneg(repo, col):
    """get_cmc reaches the bit interleaving only through code that rejects
    negative grid coordinates."""
    rule = "E-BOUND.nonneg-index.entry"
    from .dataflow import raise_guards
    fn = repo.func("sharded_base", "ShardVolumeSpec.get_cmc")
    core = repo.func("sharded_base", "ShardVolumeSpec.compressed_morton_code")

    def has_nonneg_guard(f):
        for g, atoms in raise_guards(f.node):
            for a in atoms:
                for x, y, op in ((a.left, a.right, a.op),
                                 (a.right, a.left,
                                  {">=": "<=", "<=": ">=", ">": "<",
                                   "<": ">"}.get(a.op, a.op))):
                    if const_int(y) == 0 and op in (">=",):
                        return True
                    if const_int(y) == -1 and op == ">":
                        return True
        return False

    def interleaves(f):
        return any(isinstance(x, ast.BinOp) and isinstance(x.op, ast.LShift)
                   for x in ast.walk(f.node)) and any(
            isinstance(x, ast.BinOp) and isinstance(x.op, ast.RShift)
            for x in ast.walk(f.node))
    direct = [h for h in helper_closure(fn, 2) if h is not fn]
    through_core = any(h is core for h in direct)
    bypass = [h for h in direct if h is not core and interleaves(h)
              and not has_nonneg_guard(h)]
    ok = not bypass or has_nonneg_guard(fn)
    if bypass and not ok:
        col.add(rule, fn, "negative coordinates rejected before interleaving",
                False, "get_cmc computes the identifier through %s, which "
                "has no test for negative coordinates, and has none itself: a "
                "negative on-lattice position is interleaved as an all-ones "
                "pattern and aliases a real chunk" % bypass[0].qualname,
                node=fn.node)
    else:
        col.add(rule, fn, "negative coordinates rejected before interleaving",
                True, "through compressed_morton_code" if through_core else
                "", undecided=not through_core and not bypass and
                not has_nonneg_guard(fn))


# ---------------------------------------------------------------------
def shift_beyond_width(repo, col, shorts):
    """A 32-bit array shifted left by 32 or more is 0 (NumPy does not widen):
    the halves of a 64-bit value are widened before they are combined."""
    rule = "E-DTYPE.shift-width"
    n = 0
    W = {"<u4": 32, "u4": 32, "uint32": 32, "<I": 32, "I": 32, "<i4": 32,
         "int32": 32, "<u2": 16, "uint16": 16, "<H": 16, "uint8": 8, "u1": 8,
         "B": 8}
    for ms in shorts:
        try:
            m = repo.module(ms)
        except Exception:
            continue
        for fn in m.functions.values():
            defs = local_defs(fn.node)

            def width(e, depth=0):
                """Bit width of an array expression when it is known."""
                if isinstance(e, ast.Call):
                    nm = (call_name(e) or "").split(".")[-1]
                    if nm == "astype" and e.args:
                        return W.get(norm(e.args[0]).strip("'\""),
                                     64 if "8" in norm(e.args[0]) or
                                     "64" in norm(e.args[0]) else None)
                    if nm in ("frombuffer", "array", "asarray", "zeros",
                              "empty"):
                        d = kwarg(e, "dtype") or (e.args[1] if len(e.args) > 1
                                                  else None)
                        if d is not None:
                            return W.get(norm(d).strip("'\""))
                    return None
                if isinstance(e, ast.Subscript):
                    return width(e.value, depth)
                if isinstance(e, ast.Name) and depth < 3:
                    ws = {width(d.value, depth + 1)
                          for d in defs.get(e.id, []) if d.value is not None}
                    return ws.pop() if len(ws) == 1 else None
                return None
            for x in walk_local(fn.node):
                if isinstance(x, ast.BinOp) and isinstance(x.op, ast.LShift):
                    k = const_int(x.right)
                    if k is None and isinstance(x.right, ast.Call) and \
                            x.right.args:
                        k = const_int(x.right.args[0])
                    w = width(x.left)
                    if k is not None and w is not None:
                        n += 1
                        col.add(rule, fn, norm(x)[:60], k < w, "" if k < w
                                else "`%s` is a %d-bit array and is shifted "
                                "left by %d: the result is 0, the upper half "
                                "of the 64-bit value is lost"
                                % (norm(x.left)[:40], w, k), node=x)
    col.add(rule, "package", "%d shifts of arrays of known width" % n, True,
            "", nontrivial=False)


# ---------------------------------------------------------------------
def temporary_state_used_after(repo, col, shorts):
    """A context manager that changes attributes of the object it is given
    and restores them in a `finally` makes the change valid only inside the
    with-block: using that object (or an alias of it) after the block reads it
    in its restored state - which matters for lazily evaluated objects such
    as a nibabel array proxy."""
    rule = "E-ORDER.temporary-state"
    n = 0
    for ms in shorts:
        try:
            m = repo.module(ms)
        except Exception:
            continue
        temp_cms = {}
        for f in m.functions.values():
            if not any("contextmanager" in norm(d)
                       for d in f.node.decorator_list):
                continue
            params = [p for p in f.params if p not in ("self", "cls")]
            for tr in ast.walk(f.node):
                if not (isinstance(tr, ast.Try) and tr.finalbody and any(
                        isinstance(x, ast.Yield) for b in tr.body
                        for x in ast.walk(b))):
                    continue
                restored = set()
                for st in tr.finalbody:
                    for x in ast.walk(st):
                        if isinstance(x, ast.Attribute) and \
                                isinstance(x.ctx, ast.Store) and \
                                isinstance(x.value, ast.Name) and \
                                x.value.id in params:
                            restored.add(x.value.id)
                        if isinstance(x, ast.Call):
                            for a in x.args:
                                if isinstance(a, ast.Name) and a.id in params:
                                    restored.add(a.id)
                for p in restored:
                    temp_cms[f.qualname.split(".")[-1]] = (f, params.index(p))
        if not temp_cms:
            continue
        for f in m.functions.values():
            defs = local_defs(f.node)
            for w in ast.walk(f.node):
                if not isinstance(w, ast.With):
                    continue
                for it in w.items:
                    c = it.context_expr
                    if not (isinstance(c, ast.Call) and
                            (call_name(c) or "").split(".")[-1] in temp_cms):
                        continue
                    cm, idx = temp_cms[(call_name(c) or "").split(".")[-1]]
                    aliases = set()
                    if idx < len(c.args) and isinstance(c.args[idx], ast.Name):
                        aliases.add(c.args[idx].id)
                    if isinstance(it.optional_vars, ast.Name):
                        # `with cm(x.attr) as obj`: the managed object itself
                        aliases.add(it.optional_vars.id)
                    if not aliases:
                        continue
                    obj = sorted(aliases)[0]
                    # names that may be the same object
                    for name, ds in defs.items():
                        if any(isinstance(d.value, ast.Name) and
                               d.value.id in aliases for d in ds):
                            aliases.add(name)
                    inside = {id(x) for x in ast.walk(w)}
                    end = getattr(w, "end_lineno", w.lineno)
                    later = [x for x in walk_local(f.node)
                             if isinstance(x, ast.Name) and x.id in aliases
                             and isinstance(x.ctx, ast.Load) and
                             id(x) not in inside and
                             getattr(x, "lineno", 0) > end]
                    n += 1
                    col.add(rule, f, norm(c)[:60], not later, "" if not later
                            else "`%s` changes `%s` only for the duration of "
                            "the with-block (it is restored in a finally), "
                            "but `%s` is still used after the block (line "
                            "%d): whatever is read from it lazily then sees "
                            "the restored state"
                            % (norm(c)[:40], obj, later[0].id,
                               later[0].lineno), node=later[0] if later else c)
    col.add(rule, "package", "%d temporary-state context managers in use" % n,
            True, "", nontrivial=False)


# ---------------------------------------------------------------------
def deferred_error_checked(repo, col, shorts):
    """A worker that stashes an exception on the object (`self._error = exc`)
    defers the failure to whoever looks at that attribute: the methods that
    end the work (close, __exit__, join, flush) must look at it, or an error
    on the last item is never reported."""
    rule = "E-EXC.deferred"
    n = 0
    for ms in shorts:
        try:
            m = repo.module(ms)
        except Exception:
            continue
        for cls in m.classes.values():
            stash = set()
            for f in cls.methods.values():
                for h in ast.walk(f.node):
                    if isinstance(h, ast.ExceptHandler) and h.name:
                        for st in ast.walk(h):
                            if isinstance(st, ast.Assign) and \
                                    isinstance(st.value, ast.Name) and \
                                    st.value.id == h.name:
                                for t in st.targets:
                                    if isinstance(t, ast.Attribute) and \
                                            isinstance(t.value, ast.Name) and \
                                            t.value.id == "self":
                                        stash.add(t.attr)
            if not stash:
                continue
            enders = [f for name, f in cls.methods.items()
                      if name in ("close", "__exit__", "join", "finish",
                                  "flush", "shutdown", "wait")]
            for f in enders:
                # __exit__ that only calls close() is covered by close()
                txt = " ".join(norm(h.node) for h in helper_closure(f, 2))
                for a in sorted(stash):
                    n += 1
                    ok = ("self.%s" % a) in txt
                    col.add(rule, f, "self.%s examined" % a, ok, "" if ok else
                            "%s stores a worker's exception in self.%s, but "
                            "%s ends the work without looking at it: a "
                            "failure of the last submitted item is swallowed"
                            % (cls.name, a, f.qualname), node=f.node)
    col.add(rule, "package", "%d end-of-work methods of classes that defer "
            "errors" % n, True, "", nontrivial=False)


# ---------------------------------------------------------------------
def _helper_reduction(h, e):
    """e (in helper h) is an array reduction that was not converted to a
    Python number."""
    hd = local_defs(h.node)
    if isinstance(e, ast.Call):
        nm = (call_name(e) or "").split(".")[-1]
        if nm in ("item", "int", "float", "tolist"):
            return False
        return nm in ("min", "max", "amin", "amax", "nanmin", "nanmax") and \
            isinstance(e.func, ast.Attribute)
    if isinstance(e, ast.Name):
        ds = [d for d in hd.get(e.id, []) if d.value is not None]
        return bool(ds) and all(_helper_reduction(h, d.value) for d in ds)
    return False


def numpy_scalar_vs_int_bound(repo, col, shorts=("data_types",)):
    """`chunk.max() <= np.iinfo(t).max`: the reduction is a NumPy scalar of the
    chunk's dtype and NumPy converts the Python-int bound to that dtype before
    comparing - float32(4294967295) is 4294967296.0, so a value one above the
    limit passes.  The extrema are converted with .item() / int() / float()
    (or the bound is compared in a wider type)."""
    rule = "E-DTYPE.scalar-compare"
    n = 0
    for ms in shorts:
        try:
            m = repo.module(ms)
        except Exception:
            continue
        for f in m.functions.values():
            defs = local_defs(f.node)

            def is_reduction(e, depth=0):
                if isinstance(e, ast.Call):
                    nm = (call_name(e) or "").split(".")[-1]
                    if nm in ("item", "int", "float", "tolist"):
                        return False
                    if nm in ("min", "max", "amin", "amax", "nanmin",
                              "nanmax") and (
                                  isinstance(e.func, ast.Attribute)):
                        return not (isinstance(e.func.value, ast.Name) and
                                    e.func.value.id in ("builtins",))
                    return False
                if isinstance(e, ast.Name) and depth < 3:
                    ds = [d for d in defs.get(e.id, []) if d.value is not None]
                    if ds and all(d.kind == "assign" for d in ds):
                        vals = []
                        for d in ds:
                            v = d.value
                            if d.index is not None and isinstance(
                                    v, (ast.Tuple, ast.List)) and \
                                    d.index < len(v.elts):
                                v = v.elts[d.index]
                            if isinstance(v, ast.Call):
                                h = resolve_local_call(f, v)
                                if h is not None and h is not f:
                                    # lo, hi = _value_range(chunk)
                                    rv = []
                                    for r in stmts_of(h.node):
                                        if isinstance(r, ast.Return) and \
                                                r.value is not None:
                                            x_ = r.value
                                            if d.index is not None and \
                                                    isinstance(x_, (ast.Tuple,
                                                                    ast.List)) \
                                                    and d.index < len(x_.elts):
                                                x_ = x_.elts[d.index]
                                            if isinstance(x_, ast.Constant):
                                                continue    # (None, None)
                                            rv.append(_helper_reduction(h, x_))
                                    vals.append(bool(rv) and all(rv))
                                    continue
                            vals.append(is_reduction(v, depth + 1))
                        return all(vals)
                    # a parameter that callers fill with a reduction
                    if any(d.kind == "param" for d in defs.get(e.id, [])):
                        for g in m.functions.values():
                            for c in calls_in(g.node):
                                if resolve_local_call(g, c) is f:
                                    ps = [p for p in f.params
                                          if p not in ("self", "cls")]
                                    if e.id in ps and \
                                            ps.index(e.id) < len(c.args):
                                        a = c.args[ps.index(e.id)]
                                        gd = local_defs(g.node)
                                        if isinstance(a, ast.Call) and \
                                                (call_name(a) or "").split(
                                                    ".")[-1] in ("min", "max"):
                                            return True
                                        if isinstance(a, ast.Name) and any(
                                                isinstance(d.value, ast.Call)
                                                and (call_name(d.value) or ""
                                                     ).split(".")[-1] in (
                                                         "min", "max")
                                                for d in gd.get(a.id, [])):
                                            return True
                return False

            def is_int_bound(e, depth=0):
                t = norm(e)
                if "iinfo(" in t:
                    return True
                if isinstance(e, ast.Name) and depth < 3 and any(
                        d.kind == "param" for d in defs.get(e.id, [])):
                    # a bound handed in by the callers
                    for g in m.functions.values():
                        for c in calls_in(g.node):
                            if resolve_local_call(g, c) is not f:
                                continue
                            ps = [p for p in f.params
                                  if p not in ("self", "cls")]
                            if e.id in ps and ps.index(e.id) < len(c.args):
                                a = c.args[ps.index(e.id)]
                                scopes = [g]
                                while scopes[-1].parent is not None:
                                    scopes.append(scopes[-1].parent)
                                for sc in scopes:
                                    for d in local_defs(sc.node).get(
                                            a.id if isinstance(a, ast.Name)
                                            else "", []):
                                        if d.value is not None and \
                                                "iinfo(" in norm(d.value):
                                            return True
                                if "iinfo(" in norm(a):
                                    return True
                if isinstance(e, ast.Name) and depth < 3:
                    if any(d.value is not None and
                           is_int_bound(d.value, depth + 1)
                           for d in defs.get(e.id, [])):
                        return True
                    # closure variable of the enclosing function
                    g = f.parent
                    while g is not None:
                        if any(d.value is not None and
                               "iinfo(" in norm(d.value)
                               for d in local_defs(g.node).get(e.id, [])):
                            return True
                        g = g.parent
                return False
            for x in walk_local(f.node):
                if isinstance(x, ast.Compare) and len(x.ops) >= 1:
                    sides = [x.left] + list(x.comparators)
                    for a, b in zip(sides, sides[1:]):
                        for u, v in ((a, b), (b, a)):
                            if is_reduction(u) and is_int_bound(v):
                                n += 1
                                col.add(rule, f, norm(x)[:70], False,
                                        "`%s` is a NumPy scalar of the "
                                        "array's dtype; compared with the "
                                        "integer limit `%s` NumPy first "
                                        "converts the limit to that dtype "
                                        "(float32(2**32-1) == 2**32), so a "
                                        "value just beyond the limit counts "
                                        "as in range" % (norm(u)[:30],
                                                         norm(v)[:30]),
                                        node=x)
    col.add(rule, "package", "%d comparisons of array extrema with integer "
            "limits" % n, True, "", nontrivial=False)


# ---------------------------------------------------------------------
def module_table_mutated(repo, col, shorts):
    """A module-level table that is written with its entries (defaults,
    registries) is shared by every call: a function that stores into it (or
    into a local that is the table itself, not a copy) changes the defaults
    of the whole process."""
    rule = "E-STATE.module-table"
    n = 0
    for ms in shorts:
        try:
            m = repo.module(ms)
        except Exception:
            continue
        tables = {name for name, v in m.constants.items()
                  if (isinstance(v, ast.Dict) and v.keys) or
                  (isinstance(v, (ast.List, ast.Set)) and v.elts)}
        if not tables:
            continue
        for f in m.functions.values():
            defs = local_defs(f.node)
            aliases = {}
            for name, ds in defs.items():
                real = [d for d in ds if d.kind != "param"]
                if real and all(isinstance(d.value, ast.Name) and
                                d.value.id in tables and d.kind == "assign"
                                and d.index is None for d in real):
                    aliases[name] = real[0].value.id
            for t in tables:
                if t not in defs:
                    aliases[t] = t
            for x in walk_local(f.node):
                tgt = None
                if isinstance(x, (ast.Assign, ast.AugAssign)):
                    tg = x.targets if isinstance(x, ast.Assign) else [x.target]
                    for t_ in tg:
                        if isinstance(t_, ast.Subscript) and \
                                isinstance(t_.value, ast.Name) and \
                                t_.value.id in aliases:
                            tgt = t_.value.id
                if isinstance(x, ast.Call) and \
                        isinstance(x.func, ast.Attribute) and \
                        x.func.attr in ("update", "setdefault", "pop", "clear",
                                        "append", "extend", "add", "remove",
                                        "insert", "popitem") and \
                        isinstance(x.func.value, ast.Name) and \
                        x.func.value.id in aliases:
                    tgt = x.func.value.id
                if tgt is not None:
                    n += 1
                    col.add(rule, f, norm(x)[:60], False,
                            "`%s` is the module-level table `%s` itself (no "
                            "copy was made): this store changes it for every "
                            "later call in the process"
                            % (tgt, aliases[tgt]), node=x)
    col.add(rule, "package", "%d stores into module-level tables" % n, True,
            "", nontrivial=False)


# ---------------------------------------------------------------------
def vacuous_all_in_predicate(repo, col):
    """info_is_sharded: `all(...)` is true for an empty list; a dataset
    without scales (a mesh directory) is not a sharded volume."""
    rule = "E-SIB.dispatch.nonempty"
    fn = repo.func("sharded_base", "ShardedAccessorBase.info_is_sharded")
    rets = [r.value for f in helper_closure(fn, 1) for r in stmts_of(f.node)
            if isinstance(r, ast.Return) and r.value is not None]
    alls = [x for v in rets for x in ast.walk(v) if isinstance(x, ast.Call)
            and (call_name(x) or "") in ("all", "np.all", "numpy.all")]
    if not alls:
        col.add(rule, fn, "all(...) over the scales", True,
                "predicate not in the recognised form", undecided=True)
        return
    txt = " ".join(norm(f.node) for f in helper_closure(fn, 1))
    nonempty = "len(" in txt or any(
        isinstance(v, ast.BoolOp) and isinstance(v.op, ast.And) and any(
            isinstance(x, ast.Name) for x in v.values) for v in rets) or \
        "bool(" in txt and "and" in txt or " > 0" in txt or "!= []" in txt
    col.add(rule, fn, norm(alls[0])[:60], nonempty, "" if nonempty else
            "`%s` is also true when there are no scales at all: an info "
            "without scales is then taken for a sharded dataset and "
            "dispatched to the sharded accessor" % norm(alls[0])[:40],
            node=alls[0])


# ---------------------------------------------------------------------
def param_reordered_in_place(repo, col, shorts):
    """`.reverse()` / `.sort()` on a list that was passed in (or on an element
    of one) re-orders the caller's list."""
    rule = "E-OWN.param-reorder"
    n = 0
    for ms in shorts:
        try:
            m = repo.module(ms)
        except Exception:
            continue
        for f in m.functions.values():
            params = set(f.params) - {"self", "cls"}
            if not params:
                continue
            defs = local_defs(f.node)

            def from_param(name, depth=0):
                """Parameter the name is (an element of) without a copy."""
                if name in params and all(
                        d.kind == "param" for d in defs.get(name, [])):
                    return name
                if depth > 3:
                    return None
                for d in defs.get(name, []):
                    v = d.value
                    if v is None:
                        continue
                    if d.elem and isinstance(v, ast.Name):
                        p = from_param(v.id, depth + 1)
                        if p:
                            return p
                    if isinstance(v, ast.Name) and not d.elem:
                        p = from_param(v.id, depth + 1)
                        if p:
                            return p
                    if isinstance(v, (ast.ListComp, ast.GeneratorExp)) and \
                            not d.elem and len(v.generators) == 1 and \
                            isinstance(v.generators[0].target, ast.Name) and \
                            isinstance(v.generators[0].iter, ast.Name):
                        # [x if keep(x) else copy(x) for x in src]: some
                        # elements are the caller's own objects
                        tv = v.generators[0].target.id
                        branches = [v.elt]
                        if isinstance(v.elt, ast.IfExp):
                            branches = [v.elt.body, v.elt.orelse]
                        if any(isinstance(b, ast.Name) and b.id == tv
                               for b in branches):
                            src = v.generators[0].iter.id
                            if src == name and src in params:
                                return src
                            p = from_param(src, depth + 1)
                            if p:
                                return p
                    if isinstance(v, ast.Call) and not d.elem:
                        # a helper that hands its argument back unchanged
                        h = resolve_local_call(f, v)
                        if h is not None and h is not f:
                            hp = [q for q in h.params
                                  if q not in ("self", "cls")]
                            for r in stmts_of(h.node):
                                if isinstance(r, ast.Return) and \
                                        r.value is not None:
                                    rv = r.value
                                    # [x if isinstance(x, list) else list(x)]
                                    for y in ast.walk(rv):
                                        if isinstance(y, ast.Name) and \
                                                y.id in hp and \
                                                hp.index(y.id) < len(v.args) \
                                                and isinstance(
                                                    v.args[hp.index(y.id)],
                                                    ast.Name) and not \
                                                isinstance(rv, ast.Call):
                                            an = v.args[hp.index(y.id)].id
                                            if an == name and an in params:
                                                return an
                                            p = from_param(an, depth + 1)
                                            if p:
                                                return p
                return None
            for c in calls_in(f.node):
                if isinstance(c.func, ast.Attribute) and \
                        c.func.attr in ("reverse", "sort") and \
                        isinstance(c.func.value, ast.Name) and not c.args:
                    p = from_param(c.func.value.id)
                    n += 1
                    col.add(rule, f, norm(c)[:50], p is None, "" if p is None
                            else "`%s` re-orders in place a list that comes "
                            "from the parameter `%s` without a copy: the "
                            "caller's list is changed, and a second use of "
                            "it (another channel, a later call) sees the "
                            "new order" % (norm(c)[:30], p), node=c)
    col.add(rule, "package", "%d in-place re-orderings" % n, True, "",
            nontrivial=False)


# ---------------------------------------------------------------------
# "gzip" in the sharding specification means gzip framing (RFC 1952), which
# is what a reader written from the specification decodes; zlib.compress
# writes a zlib stream (RFC 1950), which gzip decoders reject  (C04)
# ---------------------------------------------------------------------
def gzip_framing(repo, col, shorts=("sharded_base", "sharded_file_accessor")):
    rule = "E-SPEC.sharded.gzip-framing"
    n = 0

    def wbits_of(call, pos):
        v = kwarg(call, "wbits")
        if v is None and len(call.args) > pos:
            v = call.args[pos]
        return v

    for ms in shorts:
        try:
            m = repo.module(ms)
        except Exception:
            continue
        for fn in m.functions.values():
            for c in calls_in(fn.node):
                nm = dotted(c.func) or ""
                full = m.resolve(nm) or nm
                if full in ("gzip.compress", "gzip.GzipFile", "gzip.open"):
                    n += 1
                    col.add(rule, m.short, "%s: gzip framing" % full, True,
                            loc=fn.loc(c))
                    continue
                if full == "zlib.compress":
                    w = wbits_of(c, 2)
                elif full == "zlib.compressobj":
                    w = wbits_of(c, 3)
                else:
                    continue
                n += 1
                wv = const_int(w) if w is not None else 15
                if wv is None:
                    col.add(rule, m.short, "%s(wbits=%s)" % (full, norm(w)),
                            True, "window-bits argument is not a constant",
                            loc=fn.loc(c), undecided=True)
                    continue
                ok = 25 <= wv <= 31
                col.add(rule, m.short, "%s: %s" % (
                    full, "gzip framing" if ok else "zlib framing under 'gzip'"),
                    ok, "" if ok else
                    "the encoder for the \"gzip\" encoding of the sharding "
                    "specification writes a zlib stream (RFC 1950, header "
                    "78 9c), not gzip (RFC 1952, header 1f 8b): a reader "
                    "implemented from the specification cannot decompress "
                    "the minishard index / chunk data (in %s)" % fn.qualname,
                    loc=fn.loc(c))
    if n == 0:
        col.add(rule, "sharded_base", "compression call of the 'gzip' encoding",
                True, "no zlib / gzip compression call found in the sharded "
                "writer modules", undecided=True)
    return n


# ---------------------------------------------------------------------
# the bytes of a minishard index (built from the minishard's `header`
# triples) go through the index codec: the reader decodes them with
# minishard_index_encoding, whatever data_encoding says  (C04, C05)
# ---------------------------------------------------------------------
def index_bytes_use_index_codec(repo, col, shorts=("sharded_file_accessor",
                                                    "sharded_base")):
    from .core import attr_constants, expand_attrs
    rule = "E-SIB.codec-role"
    n = 0
    for ms in shorts:
        try:
            m = repo.module(ms)
        except Exception:
            continue
        for fn in m.functions.values():
            table = attr_constants(repo, fn.cls) if fn.cls is not None else {}
            defs = local_defs(fn.node)

            def from_header(e):
                names = names_in(e)
                if any(isinstance(x, ast.Attribute) and x.attr == "header"
                       for x in ast.walk(e)) or "header" in names:
                    return True
                for nm in closure_names(fn.node, names, defs):
                    if nm == "header":
                        return True
                    for d in defs.get(nm, []):
                        if d.value is not None and any(
                                isinstance(x, ast.Attribute) and
                                x.attr == "header"
                                for x in ast.walk(d.value)):
                            return True
                return False
            for c in calls_in(fn.node):
                if not c.args or not from_header(c.args[0]):
                    continue
                f_ = c.func
                kind = None
                t = norm(expand_attrs(f_, table))
                if t.endswith("index_encoder") or t == "index_encoder":
                    kind = "index"
                elif t.endswith("data_encoder"):
                    kind = "data"
                elif isinstance(f_, ast.Attribute) and f_.attr in (
                        "encode", "compress") and \
                        not isinstance(f_.value, ast.Constant):
                    recv = norm(expand_attrs(f_.value, table))
                    if recv in ("zlib", "gzip", "struct"):
                        continue
                    kind = "index" if "index" in recv else \
                        "data" if "data" in recv else "other"
                if kind is None:
                    continue
                n += 1
                col.add(rule, fn, "%s(<minishard index>)" % t[:50],
                        kind != "data",
                        "" if kind == "index" else
                        "the minishard index is encoded with the data codec "
                        "(%s): readers decode it with minishard_index_encoding, "
                        "so a dataset whose two encodings differ cannot be "
                        "read" % t if kind == "data" else
                        "codec of the minishard index not identified",
                        node=c, undecided=kind == "other")
    if n == 0:
        col.add(rule, "sharded_file_accessor", "encoding of the minishard "
                "index", True, "no encoder call on bytes derived from a "
                "minishard `header` found", undecided=True)
    return n


# ---------------------------------------------------------------------
# what is measured is what is written: a file offset advanced by len(V)
# while the bytes written are encode(V) points past (or before) the data
# as soon as the encoding changes the length  (C04, C05, C13)
# ---------------------------------------------------------------------
_ENC_WORDS = ("encode", "encoder", "compress")


def measured_is_written(repo, col, shorts=("sharded_file_accessor",
                                           "sharded_base")):
    rule = "E-ORDER.measure-written"
    n = 0
    for ms in shorts:
        try:
            m = repo.module(ms)
        except Exception:
            continue
        for fn in m.functions.values():
            defs = local_defs(fn.node)
            for c in calls_in(fn.node):
                if not (isinstance(c.func, ast.Attribute) and
                        c.func.attr == "write" and len(c.args) == 1):
                    continue
                w = c.args[0]
                if not (isinstance(w, ast.Call) and len(w.args) == 1 and
                        isinstance(w.args[0], ast.Name) and
                        (call_name(w) or "").split(".")[-1].lower()
                        .endswith(_ENC_WORDS)):
                    continue
                v = w.args[0].id
                # V bound once (not re-bound to the encoded bytes)
                if len([d for d in defs.get(v, []) if d.kind != "param"]) > 1:
                    continue
                in_msg = set()
                for y in walk_local(fn.node):
                    if isinstance(y, ast.Raise) or (
                            isinstance(y, ast.Call) and
                            (call_name(y) or "").split(".")[0] in (
                                "logger", "logging", "print", "warnings")):
                        in_msg |= {id(z) for z in ast.walk(y)}
                measures = [x for x in walk_local(fn.node)
                            if isinstance(x, ast.Call) and
                            call_name(x) == "len" and len(x.args) == 1 and
                            isinstance(x.args[0], ast.Name) and
                            x.args[0].id == v and id(x) not in in_msg and
                            x.lineno >= c.lineno]
                n += 1
                col.add(rule, fn, "write(%s(%s)) / len(%s)" % (
                    (call_name(w) or "").split(".")[-1], v, v), not measures,
                    "" if not measures else
                    "the bytes written are %s(%s) but the length recorded "
                    "afterwards is len(%s), the length before encoding: with "
                    "an encoding that changes the length (gzip) the offsets "
                    "derived from it do not delimit what is in the file"
                    % (call_name(w), v, v), node=c)
    col.add(rule, "package", "%d writes of freshly encoded bytes" % n, True,
            "", nontrivial=False)
    return n


# ---------------------------------------------------------------------
# a file stored under a name with directories in it needs those directories:
# every write-open of the plain-file accessor is preceded by the creation of
# the parent directory  (C12)
# ---------------------------------------------------------------------
def store_creates_parents(repo, col):
    from .core import specialise, enclosing_stmt_map
    rule = "E-SIB.store.parents"

    def is_mkdir(f, c):
        nm = f.module.resolve(call_name(c) or "") or ""
        if nm in ("os.makedirs", "os.mkdir"):
            return True
        return isinstance(c.func, ast.Attribute) and c.func.attr == "mkdir" \
            and any(k.arg == "parents" and isinstance(k.value, ast.Constant)
                    and k.value.value is True for k in c.keywords)

    def is_wopen(f, c):
        nm = f.module.resolve(call_name(c) or "") or ""
        mode = None
        if nm in ("open", "gzip.open", "gzip.GzipFile", "io.open") or \
                (isinstance(c.func, ast.Attribute) and c.func.attr == "open"
                 and nm != "os.open") or \
                (isinstance(c.func, ast.Name) and c.func.id in f.params):
            for a in list(c.args) + [k.value for k in c.keywords]:
                t = norm(a)
                if isinstance(a, ast.Constant) and isinstance(a.value, str) \
                        and a.value[:1] in ("w", "x", "a"):
                    mode = a.value
                elif "'wb'" in t or "'xb'" in t or t in ("mode",):
                    mode = t
            return mode is not None
        return False

    def summary(f, depth=0):
        """(opens, every path to each open passes a mkdir) for f, following
        calls to package helpers specialised to their constant arguments."""
        cfg = f.cfg()
        owner = enclosing_stmt_map(f.node)
        mk, opens, undecided = [], [], False
        for c in calls_in(f.node):
            st = owner.get(id(c))
            n_ = cfg.node_of(st) if st is not None else None
            if n_ is None:
                continue
            if is_mkdir(f, c):
                mk.append(n_)
            elif is_wopen(f, c):
                opens.append((n_, c, False))
            elif depth < 2:
                h = resolve_local_call(f, c)
                if h is None or h.key == f.key:
                    continue
                hv = specialise(h, c, bound=isinstance(c.func, ast.Attribute))
                if hv is None:
                    continue
                sub = summary(hv, depth + 1)
                if sub is None:
                    continue
                h_opens, h_ok, h_mk_all = sub
                if h_mk_all:
                    mk.append(n_)       # the helper always creates parents
                if h_opens:
                    opens.append((n_, c, h_ok))
        if not opens:
            # does every normal path create the parents?
            all_mk = bool(mk) and cfg.every_path_passes(cfg.entry, cfg.exit,
                                                        mk)
            return [], True, all_mk
        ok = True
        for n_, c, inner_ok in opens:
            if inner_ok:
                continue
            if not mk or not cfg.every_path_passes(cfg.entry, n_, mk):
                ok = False
        all_mk = bool(mk) and cfg.every_path_passes(cfg.entry, cfg.exit, mk)
        return opens, ok, all_mk

    for mname in ("store_file", "store_chunk"):
        fn = repo.func("file_accessor", "FileAccessor." + mname)
        opens, ok, _ = summary(fn)
        if not opens:
            col.add(rule, fn, "parent directory created before the file is "
                    "opened", True, "no write-open recognised in %s or its "
                    "helpers" % fn.key, undecided=True)
            continue
        # create-on-demand (`except FileNotFoundError: makedirs; retry`) is
        # another sound shape: not decided here
        lazy = any(isinstance(h_, ast.ExceptHandler) and any(
            isinstance(c_, ast.Call) and is_mkdir(f_, c_)
            for c_ in ast.walk(h_))
            for f_ in helper_closure(fn, 2) for h_ in ast.walk(f_.node))
        col.add(rule, fn, "parent directory created before the file is "
                "opened", ok or lazy, "" if ok else
                "a path opens the output file without having created its "
                "parent directory: storing `a/b` in a dataset directory that "
                "has no `a` yet fails", node=opens[0][1],
                undecided=lazy and not ok)


# ---------------------------------------------------------------------
# a plain pathname is used as it is; only a file:// URL is percent-decoded:
# `scan%20A` is a legal directory name  (C12)
# ---------------------------------------------------------------------
def percent_decoding_only_for_file_urls(repo, col, short="accessor"):
    from .core import enclosing_stmt_map, expand_properties
    from .dataflow import holds
    rule = "E-SIB.url.plain-path"
    try:
        m = repo.module(short)
    except Exception:
        return 0
    n = 0
    for fn in m.functions.values():
        sites = [c for c in calls_in(fn.node)
                 if (m.resolve(call_name(c) or "") or "") in (
                     "urllib.request.url2pathname", "urllib.parse.unquote",
                     "urllib.parse.unquote_plus",
                     "urllib.parse.unquote_to_bytes")]
        if not sites:
            continue
        cfg = fn.cfg()
        owner = enclosing_stmt_map(fn.node)
        for c in sites:
            st = owner.get(id(c))
            tn = cfg.node_of(st) if st is not None else None
            if tn is None:
                continue
            allowed, excluded, seen = None, set(), False
            for tnode in cfg.nodes:
                if tnode.kind != "test" or tnode.ast is None or tnode is tn:
                    continue
                test = getattr(tnode.ast, "test", None)
                if test is None:
                    continue
                test = expand_properties(repo, m, test)
                if "scheme" not in norm(test):
                    continue
                via = set()
                for s in tnode.succ:
                    tag = cfg.branch.get((tnode.id, s.id))
                    if tag in (True, False) and (
                            s.id == tn.id or tn.id in cfg.reachable(s)):
                        via.add(tag)
                if len(via) != 1 or not cfg.every_path_passes(
                        cfg.entry, tn, [tnode]):
                    continue
                for a in holds(test, via.pop()):
                    for b in (a, a.flipped()):
                        if not norm(b.left).endswith("scheme"):
                            continue
                        vals = None
                        if isinstance(b.right, ast.Constant) and \
                                isinstance(b.right.value, str):
                            vals = {b.right.value}
                        elif isinstance(b.right, (ast.Tuple, ast.List,
                                                  ast.Set)) and all(
                                isinstance(e, ast.Constant)
                                for e in b.right.elts):
                            vals = {e.value for e in b.right.elts}
                        elif isinstance(b.right, (ast.Name, ast.Attribute)):
                            v = None
                            if isinstance(b.right, ast.Name):
                                v = m.const(b.right.id)
                            elif isinstance(b.right.value, ast.Name) and \
                                    b.right.value.id in ("self", "cls") and \
                                    fn.cls is not None:
                                for cc in repo.mro(fn.cls):
                                    if b.right.attr in cc.class_attrs:
                                        v = cc.class_attrs[b.right.attr]
                                        break
                            if isinstance(v, (ast.Tuple, ast.List, ast.Set)) \
                                    and all(isinstance(e, ast.Constant)
                                            for e in v.elts):
                                vals = {e.value for e in v.elts}
                        if vals is None:
                            continue
                        seen = True
                        if b.op in ("==", "in"):
                            allowed = vals if allowed is None \
                                else allowed & vals
                        elif b.op in ("!=", "not in"):
                            excluded |= vals
            n += 1
            plain_possible = ("" not in excluded) and (
                allowed is None or "" in allowed)
            col.add(rule, fn, norm(c)[:60], not (seen and plain_possible),
                    "" if not plain_possible else
                    "the path is percent-decoded on a path where the scheme "
                    "may be empty (%s): a plain pathname such as `scan%%20A` "
                    "is turned into another name" % (
                        "scheme in %s" % sorted(allowed) if allowed
                        else "no test excludes it"),
                    node=c, undecided=not seen)
    if n == 0:
        col.add(rule, short, "percent-decoding of URL paths", True,
                "no url2pathname / unquote call in %s" % short, undecided=True)
    return n


# ---------------------------------------------------------------------
# two index spaces in the slice converter: positions in (column, row, slice)
# order and axis numbers of the volume (X, Y, Z).  The orientation
# permutation maps the first to the second, its inverse back: a value taken
# from one of them indexes vectors of the *other* order only  (C15)
# ---------------------------------------------------------------------
def index_space_agreement(repo, col, shorts=("scripts.slices_to_precomputed",
                                             "slice_reader")):
    rule = "E-AXIS.index-space"
    from .rules_axis import XYZ_VECTORS, CRS_VECTORS
    n = 0
    for ms in shorts:
        try:
            m = repo.module(ms)
        except Exception:
            continue
        for fn in m.functions.values():
            defs = local_defs(fn.node)
            # tables: name -> (order of its positions, space of its values)
            tables = {}
            for name, ds in defs.items():
                vs = [d.value for d in ds if d.value is not None
                      and d.index is None and not d.elem]
                if len(vs) != 1:
                    continue
                t = norm(vs[0])
                if "AXIS_PERMUTATION_FOR_RAS[" in t:
                    tables[name] = ("CRS", "XYZ")
            if "input_axis_permutation" in fn.params:
                tables.setdefault("input_axis_permutation", ("CRS", "XYZ"))
            for name, ds in defs.items():
                vs = [d.value for d in ds if d.value is not None
                      and d.index is None and not d.elem]
                if len(vs) == 1 and isinstance(vs[0], ast.Call) and \
                        (call_name(vs[0]) or "").split(".")[-1] == \
                        "invert_permutation" and vs[0].args and \
                        norm(vs[0].args[0]) in tables:
                    o, v_ = tables[norm(vs[0].args[0])]
                    tables[name] = (v_, o)
            if not tables:
                continue
            order = {nm: "XYZ" for nm in XYZ_VECTORS if "." not in nm}
            order.update({nm: "CRS" for nm in CRS_VECTORS})
            order.update({nm: o for nm, (o, _) in tables.items()})
            for name, ds in defs.items():
                vs = [d.value for d in ds if d.value is not None
                      and d.index is None and not d.elem]
                if len(vs) == 1 and isinstance(vs[0], ast.Call) and \
                        (call_name(vs[0]) or "").split(".")[-1] == "permute" \
                        and len(vs[0].args) == 2 and \
                        norm(vs[0].args[1]) in tables:
                    order[name] = tables[norm(vs[0].args[1])][0]

            def space_of(e, depth=0):
                """Index space of an index expression: the value space of the
                table it is read from."""
                if isinstance(e, ast.Subscript) and \
                        isinstance(e.value, ast.Name) and \
                        e.value.id in tables and \
                        const_int(e.slice) is not None:
                    return tables[e.value.id][1]
                if isinstance(e, ast.Name) and depth < 3:
                    vs = [d.value for d in defs.get(e.id, [])
                          if d.value is not None]
                    if len(vs) == 1 and not any(
                            d.kind in ("for", "comp", "param")
                            for d in defs.get(e.id, [])):
                        return space_of(vs[0], depth + 1)
                return None
            for x in walk_local(fn.node):
                if not (isinstance(x, ast.Subscript) and
                        isinstance(x.value, ast.Name) and
                        x.value.id in order):
                    continue
                sp = space_of(x.slice)
                if sp is None:
                    continue
                n += 1
                ok = sp == order[x.value.id]
                col.add(rule, fn, norm(x)[:60], ok, "" if ok else
                        "`%s` is in %s order but is indexed with `%s`, which "
                        "is %s: the element of another axis is taken whenever "
                        "the orientation permutes the axes" % (
                            x.value.id,
                            "(column, row, slice)" if order[x.value.id] == "CRS"
                            else "(X, Y, Z)", norm(x.slice),
                            "an axis number of the volume (X, Y, Z)"
                            if sp == "XYZ" else
                            "a position in (column, row, slice) order"),
                        node=x)
    col.add(rule, "package", "%d indexings through the orientation tables"
            % n, True, "", nontrivial=False)
    return n


# ---------------------------------------------------------------------
# the --input-min/--input-max rescaling is installed on the array proxy
# (proxy._slope / proxy._inter): an array read from the proxy *before* that
# carries the file's own scaling only  (C01)
# ---------------------------------------------------------------------
def rescale_before_load(repo, col):
    from .core import enclosing_stmt_map
    rule = "E-ORDER.rescale-before-load"
    from .core import inline_view
    fn = inline_view(repo.func("volume_reader",
                               "nibabel_image_to_precomputed"),
                     keep=("volume_to_precomputed",))
    cfg = fn.cfg()
    owner = enclosing_stmt_map(fn.node)
    defs = local_defs(fn.node)
    writes = []
    for st in stmts_of(fn.node):
        if isinstance(st, (ast.Assign, ast.AugAssign)):
            tgs = st.targets if isinstance(st, ast.Assign) else [st.target]
            if any(isinstance(t, ast.Attribute) and
                   t.attr.lstrip("_") in ("slope", "inter") for t in tgs):
                writes.append(st)
    if not writes:
        col.add(rule, fn, "proxy._slope / proxy._inter", True,
                "the rescaling is not installed by assigning the proxy's "
                "slope / intercept in this function", undecided=True)
        return
    # what is handed to the chunk writer as the volume
    sinks = [c for c in calls_in(fn.node)
             if (call_name(c) or "").split(".")[-1] == "volume_to_precomputed"]
    vol_names = set()
    for c in sinks:
        a = c.args[1] if len(c.args) > 1 else kwarg(c, "volume")
        if a is not None:
            vol_names |= closure_names(fn.node, names_in(a), defs)
    loads = []

    def materialises(f, c, depth=0):
        nm = f.module.resolve(call_name(c) or "") or ""
        if nm in ("numpy.asanyarray", "numpy.asarray", "numpy.array",
                  "numpy.ascontiguousarray") or \
                (isinstance(c.func, ast.Attribute) and
                 c.func.attr in ("get_fdata", "get_data")):
            return True
        if depth < 2:
            h = resolve_local_call(f, c)
            if h is not None and h.key != f.key:
                return any(isinstance(r, ast.Return) and r.value is not None
                           and any(isinstance(x, ast.Call) and
                                   materialises(h, x, depth + 1)
                                   for x in ast.walk(r.value))
                           for r in stmts_of(h.node))
        return False
    for c in calls_in(fn.node):
        if materialises(fn, c):
            st = owner.get(id(c))
            if isinstance(st, ast.Assign) and any(
                    isinstance(t, ast.Name) and t.id in vol_names
                    for t in st.targets):
                loads.append((c, st))
    if not loads:
        col.add(rule, fn, "array read from the proxy", True,
                "no full read of the image data that reaches "
                "volume_to_precomputed was recognised", undecided=True)
        return
    for c, st in loads:
        ln = cfg.node_of(st)
        late = [w for w in writes if ln is not None and
                cfg.node_of(w) is not None and
                cfg.node_of(w).id in cfg.reachable(ln)]
        col.add(rule, fn, norm(c)[:60], not late, "" if not late else
                "the data is read into memory here, and `%s` (line %d) "
                "installs the input-min / input-max rescaling afterwards: "
                "the loaded array does not carry it" % (
                    norm(late[0])[:50], late[0].lineno), node=c)


# ---------------------------------------------------------------------
# order="K" / order="A" make the sequence of elements depend on how the
# caller's array happens to lie in memory (a transposed view, a Fortran-
# ordered volume from nibabel): what is written to a file or used as an
# index stream must not  (common rule)
# ---------------------------------------------------------------------
def memory_order_dependent(repo, col, shorts):
    rule = "E-AXIS.memory-order"
    n = 0
    for ms in shorts:
        try:
            m = repo.module(ms)
        except Exception:
            continue
        for fn in m.functions.values():
            for c in calls_in(fn.node):
                leaf = c.func.attr if isinstance(c.func, ast.Attribute) \
                    else (call_name(c) or "").split(".")[-1]
                if leaf not in ("ravel", "flatten", "reshape", "tobytes",
                                "tostring", "nditer"):
                    continue
                o = kwarg(c, "order")
                if o is None and leaf in ("ravel", "flatten", "tobytes") and \
                        isinstance(c.func, ast.Attribute) and \
                        len(c.args) == 1 and \
                        (m.resolve(call_name(c) or "") or "").split(".")[0] \
                        != "numpy":
                    o = c.args[0]
                if o is None and leaf == "ravel" and len(c.args) == 2:
                    o = c.args[1]
                if not (isinstance(o, ast.Constant) and
                        isinstance(o.value, str)):
                    continue
                n += 1
                ok = o.value.upper() not in ("K", "A")
                col.add(rule, fn, norm(c)[:70], ok, "" if ok else
                        "order=%r takes the elements in the order they lie in "
                        "memory: for an array that is not C-contiguous (a "
                        "transposed view, nibabel's Fortran-ordered volumes) "
                        "the sequence differs from the index order the format "
                        "prescribes" % o.value, node=c)
    return n


# ---------------------------------------------------------------------
# a position computed by division from a caller-supplied coordinate and then
# range-checked on one side only: `idx >= count` is refused, a negative idx
# (negative coordinate) is not - it names a chunk that does not exist, or by
# Python's negative indexing one that does  (common rule)
# ---------------------------------------------------------------------
def one_sided_index_check(repo, col, shorts):
    from .dataflow import raise_guards, holds
    from .core import block_always_raises
    rule = "E-BOUND.one-sided"
    n = 0
    for ms in shorts:
        try:
            m = repo.module(ms)
        except Exception:
            continue
        for fn in m.functions.values():
            defs = local_defs(fn.node)
            params = set(fn.params) - {"self", "cls"}
            # quotients of parameter-derived values
            quot = {}
            for name, ds in defs.items():
                for d in ds:
                    v = d.value
                    if v is None:
                        continue
                    isq = (isinstance(v, ast.BinOp) and
                           isinstance(v.op, ast.FloorDiv)) or (
                        isinstance(v, ast.Call) and call_name(v) == "divmod"
                        and d.index == 0)
                    if not isq:
                        continue
                    num = v.left if isinstance(v, ast.BinOp) else v.args[0]
                    src = closure_names(fn.node, names_in(num), defs)
                    if src & params:
                        quot[name] = (num, d)
            if not quot:
                continue
            # rejecting tests: raise, or return None / False
            rejecting = []
            for st in stmts_of(fn.node):
                if isinstance(st, ast.If) and not st.orelse and st.body and (
                        block_always_raises(st.body) or (
                            isinstance(st.body[-1], ast.Return) and (
                                st.body[-1].value is None or (
                                    isinstance(st.body[-1].value, ast.Constant)
                                    and st.body[-1].value.value in
                                    (None, False))))):
                    rejecting.append(st)
            for name, (num, d) in quot.items():
                upper = lower = None
                for st in rejecting:
                    # atoms that hold on the accepted (fall-through) path
                    for a in holds(st.test, False):
                        for b in (a, a.flipped()):
                            l = norm(b.left)
                            if l != name and l not in {
                                    norm(num)} | names_in(num):
                                continue
                            if l == name and b.op in ("<", "<=") and \
                                    const_int(b.right) is None:
                                upper = st
                            if b.op in (">=", ">") and \
                                    const_int(b.right) in (0, -1):
                                lower = st
                    # chained / combined forms: 0 <= idx < n
                    t = norm(st.test)
                    if ("0 <= %s" % name) in t or ("%s >= 0" % name) in t or \
                            ("%s < 0" % name) in t or ("0 > %s" % name) in t:
                        lower = st
                    for nm_ in names_in(num):
                        if ("%s < 0" % nm_) in t or ("0 <= %s" % nm_) in t \
                                or ("%s >= 0" % nm_) in t:
                            lower = st
                if upper is None:
                    continue
                # a lower bound established elsewhere (assert, guard of the
                # numerator in any form)?
                if lower is None:
                    for g, atoms in raise_guards(fn.node):
                        for a in atoms:
                            for b in (a, a.flipped()):
                                if b.op in (">=", ">") and \
                                        const_int(b.right) in (0, -1) and (
                                            norm(b.left) == name or
                                            names_in(b.left) & names_in(num)):
                                    lower = g
                n += 1
                col.add(rule, fn, "%s = %s" % (name, norm(d.value)[:40]),
                        lower is not None, "" if lower is not None else
                        "`%s` is a quotient of caller-supplied `%s` and is "
                        "refused when it is too large (`%s`), but nothing "
                        "refuses a negative value: a negative coordinate is "
                        "accepted" % (name, norm(num), norm(upper.test)[:50]),
                        node=upper)
    return n


# ---------------------------------------------------------------------
# generic iteration / identity hazards  (common rules)
# ---------------------------------------------------------------------
_MUTATORS = ("remove", "append", "pop", "insert", "clear", "extend", "sort",
             "reverse", "add", "discard", "update", "popitem", "setdefault")


def mutation_during_iteration(repo, col, shorts):
    """`for x in L: ... L.remove(x)`: the iterator of a list steps by
    position, removing an element makes it skip the next one (adding one makes
    it visit more); a dict or set raises.  Iterating over a copy
    (list(L), L[:], tuple(L), sorted(L)) is the idiom."""
    rule = "E-ITER.mutated"
    n = 0
    for ms in shorts:
        try:
            m = repo.module(ms)
        except Exception:
            continue
        for fn in m.functions.values():
            for lp in walk_local(fn.node):
                if not isinstance(lp, ast.For):
                    continue
                it = lp.iter
                base = None
                if isinstance(it, (ast.Name, ast.Attribute)):
                    base = norm(it)
                elif isinstance(it, ast.Call) and call_name(it) in (
                        "enumerate", "reversed", "iter") and it.args and \
                        isinstance(it.args[0], (ast.Name, ast.Attribute)):
                    base = norm(it.args[0])
                elif isinstance(it, ast.Call) and \
                        isinstance(it.func, ast.Attribute) and \
                        it.func.attr in ("items", "keys", "values") and \
                        not it.args:
                    base = norm(it.func.value)
                if base is None:
                    continue
                hit = None
                for st in lp.body:
                    for x in ast.walk(st):
                        if isinstance(x, ast.Call) and \
                                isinstance(x.func, ast.Attribute) and \
                                x.func.attr in _MUTATORS and \
                                norm(x.func.value) == base:
                            hit = x
                        if isinstance(x, ast.Delete) and any(
                                isinstance(t, ast.Subscript) and
                                norm(t.value) == base for t in x.targets):
                            hit = x
                if hit is None:
                    continue
                # leaving the loop right after the mutation is fine
                owner = None
                for st in ast.walk(lp):
                    if isinstance(st, (ast.If, ast.For, ast.While, ast.With,
                                       ast.Try)) or st is lp:
                        for fld in ("body", "orelse", "finalbody"):
                            blk = getattr(st, fld, None)
                            if isinstance(blk, list):
                                for i_, s_ in enumerate(blk):
                                    if any(y is hit for y in ast.walk(s_)):
                                        owner = (blk, i_)
                leaves = False
                if owner is not None:
                    blk, i_ = owner
                    leaves = any(isinstance(s_, (ast.Break, ast.Return,
                                                 ast.Raise))
                                 for s_ in blk[i_ + 1:i_ + 2]) or \
                        isinstance(blk[i_], (ast.Return,))
                n += 1
                col.add(rule, fn, "for ... in %s: %s" % (base, norm(hit)[:40]),
                        leaves, "" if leaves else
                        "`%s` is changed by `%s` while the loop iterates over "
                        "it: elements are skipped (or visited twice); iterate "
                        "over a copy" % (base, norm(hit)[:50]), node=hit)
    return n


def stale_loop_variable(repo, col, shorts):
    """A comprehension / loop whose own target is never used while its body
    reads the target of an *earlier, finished* loop: every round computes the
    same thing from whatever that loop left behind."""
    rule = "E-ITER.stale-variable"
    n = 0
    for ms in shorts:
        try:
            m = repo.module(ms)
        except Exception:
            continue
        for fn in m.functions.values():
            loops = [x for x in walk_local(fn.node) if isinstance(x, ast.For)]
            if not loops:
                continue
            for lp in loops:
                tnames = {t.id for t in ast.walk(lp.target)
                          if isinstance(t, ast.Name)}
                end = getattr(lp, "end_lineno", lp.lineno)
                for x in walk_local(fn.node):
                    gens = []
                    if isinstance(x, (ast.ListComp, ast.SetComp,
                                      ast.GeneratorExp, ast.DictComp)):
                        gens = x.generators
                        body = [x.elt] if not isinstance(x, ast.DictComp) \
                            else [x.key, x.value]
                    elif isinstance(x, ast.For) and x is not lp:
                        class _G:
                            pass
                        g_ = _G()
                        g_.target, g_.ifs = x.target, []
                        gens = [g_]
                        body = x.body
                    else:
                        continue
                    if getattr(x, "lineno", 0) <= end:
                        continue        # not after the first loop
                    if any(y is x for y in ast.walk(lp)):
                        continue
                    own = {t.id for g in gens for t in ast.walk(g.target)
                           if isinstance(t, ast.Name)}
                    used = {y.id for b in body for y in ast.walk(b)
                            if isinstance(y, ast.Name)
                            and isinstance(y.ctx, ast.Load)}
                    used |= {y.id for g in gens for i_ in g.ifs
                             for y in ast.walk(i_) if isinstance(y, ast.Name)}
                    if (own - {"_"}) & used or not own - {"_"}:
                        continue        # the own target is used (or is `_`)
                    stale = tnames & used
                    if not stale:
                        continue
                    # re-bound between the two loops?
                    defs = local_defs(fn.node)
                    rebound = any(
                        d.stmt is not None and
                        end < getattr(d.stmt, "lineno", 0) <= x.lineno and
                        not any(y is d.stmt for y in ast.walk(lp))
                        for v in stale for d in defs.get(v, []))
                    if rebound:
                        continue
                    n += 1
                    v = sorted(stale)[0]
                    col.add(rule, fn, norm(x)[:70], False,
                            "the loop variable `%s` is never used, while the "
                            "body reads `%s`, which is what the loop at line "
                            "%d left behind: every element is computed from "
                            "that one value" % (sorted(own)[0], v, lp.lineno),
                            node=x)
    return n


def identity_as_key(repo, col, shorts):
    """id(obj) is unique only while obj is alive: a name or key built from it
    is handed to the next object that is allocated at the same address."""
    rule = "E-STATE.id-key"
    n = 0
    for ms in shorts:
        try:
            m = repo.module(ms)
        except Exception:
            continue
        for fn in m.functions.values():
            owner = None
            for c in calls_in(fn.node):
                if not (isinstance(c.func, ast.Name) and c.func.id == "id"
                        and len(c.args) == 1):
                    continue
                # used for a name, a path or a key?
                used = None
                for x in walk_local(fn.node):
                    inside = any(y is c for y in ast.walk(x))
                    if not inside:
                        continue
                    if isinstance(x, (ast.JoinedStr,)):
                        used = "a formatted string"
                    if isinstance(x, ast.Call) and (
                            (call_name(x) or "").split(".")[-1] in (
                                "format", "str", "hex", "join")):
                        used = used or "a string"
                    if isinstance(x, ast.BinOp) and isinstance(
                            x.op, (ast.Mod, ast.Div, ast.Add)) and any(
                            isinstance(s_, (ast.Constant, ast.JoinedStr))
                            for s_ in (x.left, x.right)):
                        used = used or "a name"
                    if isinstance(x, ast.Subscript) and any(
                            y is c for y in ast.walk(x.slice)):
                        used = used or "a key"
                if used is None:
                    continue
                n += 1
                # a dictionary keyed by id() is sound when it also keeps the
                # object alive: not decided; a file name / string is not
                col.add(rule, fn, norm(c)[:40], used == "a key",
                        "%s goes into %s: once the object is freed its "
                        "address - and with it this name - is given to "
                        "another object, which then meets what the first one "
                        "left behind" % (norm(c), used), node=c,
                        undecided=used == "a key")
    return n


# ---------------------------------------------------------------------
# the pyramid code names everything of the source scale old_* and of the
# scale being computed new_*: a volume size and a chunk size that go into
# one grid / extent computation belong to the same scale  (C06, C20)
# ---------------------------------------------------------------------
def scale_pair_consistent(repo, col, shorts=("dyadic_pyramid",)):
    rule = "E-TILE.scale-pair"
    n = 0

    def tag(e):
        """('old'|'new', 'size'|'chunk') of an argument expression."""
        while isinstance(e, ast.Subscript):
            e = e.value
        if not isinstance(e, ast.Name):
            return None
        parts = e.id.split("_")
        if parts[0] not in ("old", "new") or len(parts) < 2:
            return None
        rest = "_".join(parts[1:])
        if rest == "size":
            return parts[0], "size"
        if rest in ("chunk_size", "chunk_sizes"):
            return parts[0], "chunk"
        return None
    for ms in shorts:
        try:
            m = repo.module(ms)
        except Exception:
            continue
        for fn in m.functions.values():
            for c in calls_in(fn.node):
                tags = [t for t in (tag(a) for a in list(c.args) +
                                    [k.value for k in c.keywords]) if t]
                sizes = {t[0] for t in tags if t[1] == "size"}
                chunks = {t[0] for t in tags if t[1] == "chunk"}
                if len(sizes) != 1 or len(chunks) != 1:
                    continue
                n += 1
                ok = sizes == chunks
                col.add(rule, fn, norm(c)[:70], ok, "" if ok else
                        "the size of the %s scale is combined with the chunk "
                        "size of the %s scale: the grid / extent computed "
                        "here belongs to neither" % (sorted(sizes)[0],
                                                     sorted(chunks)[0]),
                        node=c)
    return n


# ---------------------------------------------------------------------
# keys read from a sharding specification are keys the specification has
# (the parameters of ShardSpec and "@type"): `.get("preshift", 0)` silently
# yields the default for every dataset  (C09, C04)
# ---------------------------------------------------------------------
def sharding_spec_keys(repo, col):
    from .core import is_new_module
    rule = "E-SPEC.sharded.keys"
    try:
        ini = repo.func("sharded_base", "ShardSpec.__init__")
    except Exception:
        return 0
    allowed = {p for p in ini.params if p != "self"} | {"@type"}
    n = 0
    for m in repo.modules.values():
        if not (m.short.startswith("sharded") or is_new_module(m.name)
                or m.short in ("accessor", "volume_reader", "precomputed_io")):
            continue
        for fn in m.functions.values():
            for x in walk_local(fn.node):
                key = recv = None
                if isinstance(x, ast.Call) and \
                        isinstance(x.func, ast.Attribute) and \
                        x.func.attr in ("get", "pop") and x.args and \
                        isinstance(x.args[0], ast.Constant) and \
                        isinstance(x.args[0].value, str):
                    key, recv = x.args[0].value, x.func.value
                elif isinstance(x, ast.Subscript) and \
                        isinstance(x.slice, ast.Constant) and \
                        isinstance(x.slice.value, str) and \
                        isinstance(x.ctx, ast.Load):
                    key, recv = x.slice.value, x.value
                if key is None:
                    continue
                t = norm(recv)
                if not (isinstance(recv, ast.Name) and "sharding" in recv.id
                        or t.endswith("['sharding']")
                        or t.endswith(".get('sharding')")):
                    continue
                n += 1
                ok = key in allowed
                col.add(rule, fn, norm(x)[:60], ok, "" if ok else
                        "`%s` is not a key of the sharding specification "
                        "(%s): the lookup never finds the configured value"
                        % (key, ", ".join(sorted(allowed))), node=x)
    col.add(rule, "package", "%d reads of sharding-specification keys" % n,
            True, "", nontrivial=False)
    return n


# ---------------------------------------------------------------------
# a value memoised on the object (`if self._c is None: self._c = f(self.a)`)
# is stale after a method changes self.a in place, unless that method resets
# the memo  (common rule; C16 transform objects)
# ---------------------------------------------------------------------
def memo_invalidated(repo, col, shorts):
    rule = "E-CACHE.invalidate"
    n = 0

    def self_attr(e):
        while isinstance(e, ast.Subscript):
            e = e.value
        if isinstance(e, ast.Attribute) and isinstance(e.value, ast.Name) \
                and e.value.id == "self":
            return e.attr
        return None
    for ms in shorts:
        try:
            m = repo.module(ms)
        except Exception:
            continue
        for ci in m.classes.values():
            memos = {}          # memo attr -> (method, attrs it is built from)
            for mname, f in ci.methods.items():
                for st in walk_local(f.node):
                    if not (isinstance(st, ast.If) and not st.orelse):
                        continue
                    t = st.test
                    memo = None
                    if isinstance(t, ast.Compare) and len(t.ops) == 1 and \
                            isinstance(t.ops[0], ast.Is) and \
                            isinstance(t.comparators[0], ast.Constant) and \
                            t.comparators[0].value is None:
                        memo = self_attr(t.left) if not isinstance(
                            t.left, ast.Subscript) else None
                    if memo is None:
                        continue
                    for b in st.body:
                        if isinstance(b, ast.Assign) and any(
                                self_attr(tg) == memo and
                                not isinstance(tg, ast.Subscript)
                                for tg in b.targets):
                            src = {self_attr(x) for x in ast.walk(b.value)
                                   if isinstance(x, ast.Attribute) and
                                   self_attr(x)} - {memo, None}
                            # through properties of the class
                            for x in ast.walk(b.value):
                                if isinstance(x, ast.Attribute) and \
                                        self_attr(x) in ci.methods:
                                    pf = ci.methods[self_attr(x)]
                                    src |= {self_attr(y)
                                            for y in ast.walk(pf.node)
                                            if isinstance(y, ast.Attribute)
                                            and self_attr(y)} - {memo, None}
                            if src:
                                memos[memo] = (f, src)
            for memo, (mf, src) in memos.items():
                for mname, f in ci.methods.items():
                    if f is mf or mname == "__init__":
                        continue
                    changed = None
                    resets = False
                    for st in walk_local(f.node):
                        tgs = []
                        if isinstance(st, ast.Assign):
                            tgs = st.targets
                        elif isinstance(st, ast.AugAssign):
                            tgs = [st.target]
                        for tg in tgs:
                            a = self_attr(tg)
                            if a == memo and not isinstance(tg, ast.Subscript):
                                resets = True
                            elif a in src:
                                changed = changed or st
                        if isinstance(st, ast.Call) and \
                                isinstance(st.func, ast.Attribute) and \
                                st.func.attr in _MUTATORS and \
                                self_attr(st.func.value) in src:
                            changed = changed or st
                    if changed is None:
                        continue
                    n += 1
                    col.add(rule, f, "%s changes %s, memo self.%s" % (
                        mname, norm(changed)[:40], memo), resets,
                        "" if resets else
                        "%s.%s keeps its result in self.%s, computed from "
                        "%s; %s changes that state and does not reset the "
                        "memo: a value handed out earlier is handed out again"
                        % (ci.name, mf.qualname.split(".")[-1], memo,
                           ", ".join("self." + x for x in sorted(src)), mname),
                        node=changed)
    return n


# ---------------------------------------------------------------------
# a module-level default *object* handed out as `given or DEFAULT` and then
# assigned to: every later caller that relies on the default sees the change
# (common rule)
# ---------------------------------------------------------------------
def shared_default_object_mutated(repo, col, shorts):
    rule = "E-STATE.shared-default"
    n = 0
    for ms in shorts:
        try:
            m = repo.module(ms)
        except Exception:
            continue
        objs = {nm for nm, v in m.constants.items()
                if isinstance(v, ast.Call) and isinstance(v.func, ast.Name)
                and v.func.id in m.classes}
        if not objs:
            continue
        for fn in m.functions.values():
            defs = local_defs(fn.node)
            aliases = {}
            for name, ds in defs.items():
                for d in ds:
                    if d.value is None:
                        continue
                    v = d.value
                    cands = [v]
                    if isinstance(v, ast.BoolOp):
                        cands = list(v.values)
                    elif isinstance(v, ast.IfExp):
                        cands = [v.body, v.orelse]
                    for e in cands:
                        if isinstance(e, ast.Name) and e.id in objs:
                            aliases[name] = e.id
            for st in walk_local(fn.node):
                tgs = []
                if isinstance(st, ast.Assign):
                    tgs = st.targets
                elif isinstance(st, ast.AugAssign):
                    tgs = [st.target]
                for tg in tgs:
                    b = tg
                    while isinstance(b, ast.Subscript):
                        b = b.value
                    if isinstance(b, ast.Attribute) and \
                            isinstance(b.value, ast.Name) and (
                                b.value.id in aliases or b.value.id in objs):
                        obj = aliases.get(b.value.id, b.value.id)
                        n += 1
                        col.add(rule, fn, norm(st)[:60], False,
                                "`%s` may be the module-level default object "
                                "%s: the assignment changes it for every "
                                "later caller that does not pass its own"
                                % (b.value.id, obj), node=st)
    return n


# ---------------------------------------------------------------------
# one-shot iterators that are kept and used again  (common rules)
# ---------------------------------------------------------------------
def _is_generator_fn(f):
    return any(isinstance(x, (ast.Yield, ast.YieldFrom))
               for x in walk_local(f.node))


def _memo_decorated(f):
    for d in f.node.decorator_list:
        t = norm(d.func if isinstance(d, ast.Call) else d)
        if t.split(".")[-1] in ("lru_cache", "cache", "cached_property"):
            return t
    return None


def memoised_one_shot(repo, col, shorts):
    """(a) a memoised function that returns a generator: the second caller
    gets the exhausted iterator; (b) a generator object bound in a factory
    and iterated by the closure it returns: only the first call of the
    closure sees elements; (c) a memoised method of a class that compares by
    a subset of its fields: the memo is shared by objects that differ in the
    fields the method reads."""
    rule = "E-ITER.kept-generator"
    n = 0
    for ms in shorts:
        try:
            m = repo.module(ms)
        except Exception:
            continue
        for fn in m.functions.values():
            deco = _memo_decorated(fn)
            if deco:
                gen_ret = _is_generator_fn(fn) or any(
                    isinstance(r, ast.Return) and
                    isinstance(r.value, ast.GeneratorExp)
                    for r in stmts_of(fn.node)) or any(
                    isinstance(r, ast.Return) and
                    isinstance(r.value, ast.Call) and
                    call_name(r.value) in ("iter", "map", "filter", "zip",
                                           "reversed", "enumerate")
                    for r in stmts_of(fn.node))
                n += 1
                col.add(rule, fn, "@%s %s" % (deco, fn.qualname),
                        not gen_ret, "" if not gen_ret else
                        "%s is memoised and returns a one-shot iterator: "
                        "every caller after the first receives the same, "
                        "already exhausted object" % fn.qualname,
                        node=fn.node)
                # (c) memoised method of a value-like class
                if fn.cls is not None and fn.params[:1] == ["self"] and \
                        "cached_property" not in deco:
                    ci = fn.cls
                    partial_eq = "__hash__" in ci.methods or \
                        "__eq__" in ci.methods or any(
                            "compare=False" in norm(st)
                            for st in ci.node.body
                            if isinstance(st, (ast.AnnAssign, ast.Assign)))
                    if partial_eq:
                        n += 1
                        col.add(rule.replace("kept-generator", "method-memo"),
                                fn, "@%s %s" % (deco, fn.qualname), False,
                                "%s is memoised on `self`, and %s compares / "
                                "hashes by part of its state: objects that "
                                "differ elsewhere share one memo entry"
                                % (fn.qualname, ci.name), node=fn.node)
            # (b) generator bound outside, iterated inside a nested def
            defs = local_defs(fn.node)
            nested = [g for g in m.functions.values() if g.parent is fn]
            if not nested:
                continue
            for name, ds in defs.items():
                vs = [d.value for d in ds if d.value is not None]
                if len(vs) != 1 or not isinstance(vs[0], (ast.Call,
                                                          ast.GeneratorExp)):
                    continue
                one_shot = isinstance(vs[0], ast.GeneratorExp)
                if isinstance(vs[0], ast.Call):
                    h = resolve_local_call(fn, vs[0])
                    if h is None and isinstance(vs[0].func, ast.Attribute):
                        owners = [cc.methods[vs[0].func.attr]
                                  for cc in repo.all_classes()
                                  if vs[0].func.attr in cc.methods]
                        h = owners[0] if len(owners) == 1 else None
                    one_shot = h is not None and _is_generator_fn(h)
                if not one_shot:
                    continue
                for g in nested:
                    uses = [x for x in walk_local(g.node)
                            if isinstance(x, (ast.For, ast.comprehension))
                            and isinstance(x.iter, ast.Name)
                            and x.iter.id == name]
                    if uses and name not in g.params and \
                            name not in local_defs(g.node):
                        n += 1
                        col.add(rule, fn, "%s = %s" % (name, norm(vs[0])[:40]),
                                False, "`%s` is a generator created once in "
                                "%s and iterated by %s, which is called many "
                                "times: from the second call on there is "
                                "nothing left to iterate over"
                                % (name, fn.qualname, g.qualname),
                                node=uses[0] if isinstance(uses[0], ast.For)
                                else None)
    return n
