"""Round-9 rules: defects that arrive with optimisations, new options and
de-duplications (caches, forwarded options, numpy promotion traps, ...).

Same policy as everywhere: FAIL names a positively wrong construct; a shape
that is not recognised yields nothing or UNDECIDED."""
import ast

from .core import (norm, walk_local, call_name, calls_in, kwarg, const_int, dotted,
                   helper_closure, resolve_local_call, stmts_of,
                   enclosing_stmt_map)
from .dataflow import local_defs, names_in, closure_names
from .rules_more4 import resolve_pkg_call


# ---------------------------------------------------------------------
def _loop_assigned(loop):
    out = set()
    for n in ast.walk(loop):
        if isinstance(n, ast.Name) and isinstance(n.ctx, ast.Store):
            out.add(n.id)
    return out


def cache_key_complete(repo, col, shorts):
    """A value stored in a cache under a key is handed out again for every
    later request with that key: whatever the value is computed from, and
    that can differ between two requests, has to be part of the key."""
    rule = "E-CACHE.key"
    n = 0
    for ms in shorts:
        try:
            m = repo.module(ms)
        except Exception:
            continue
        mod_dicts = set()
        for cname, cval in m.constants.items():
            if isinstance(cval, ast.Dict) and not cval.keys or (
                    isinstance(cval, ast.Call) and
                    (call_name(cval) or "").split(".")[-1] in (
                        "dict", "OrderedDict", "WeakValueDictionary")
                    and not cval.args):
                mod_dicts.add(cname)
        for fn in m.functions.values():
            defs = local_defs(fn.node)
            owner = enclosing_stmt_map(fn.node)
            local_dicts = {}
            for name, ds in defs.items():
                real = [d for d in ds if d.kind != "param"]
                if len(real) == 1 and real[0].kind == "assign" and \
                        real[0].index is None and (
                            (isinstance(real[0].value, ast.Dict) and
                             not real[0].value.keys) or
                            (isinstance(real[0].value, ast.Call) and
                             call_name(real[0].value) == "dict" and
                             not real[0].value.args)):
                    local_dicts[name] = real[0].stmt
            loops = [x for x in ast.walk(fn.node)
                     if isinstance(x, (ast.For, ast.While))]
            for st in ast.walk(fn.node):
                if not (isinstance(st, ast.Assign) and len(st.targets) == 1
                        and isinstance(st.targets[0], ast.Subscript)
                        and isinstance(st.targets[0].value, ast.Name)):
                    continue
                cache = st.targets[0].value.id
                key = st.targets[0].slice
                if cache in mod_dicts and cache not in defs:
                    varying = set(defs) - {"self", "cls"}
                elif cache in local_dicts:
                    # the cache outlives the iterations of the loops that
                    # contain the store but not the dict's creation
                    varying = set()
                    for lp in loops:
                        inside = {id(x) for x in ast.walk(lp)}
                        if id(st) in inside and \
                                id(local_dicts[cache]) not in inside:
                            varying |= _loop_assigned(lp)
                    if not varying:
                        continue
                else:
                    continue
                # the same key is used to look the value up again
                ktxt = norm(key)
                looked_up = False
                for x in ast.walk(fn.node):
                    if isinstance(x, ast.Subscript) and x is not st.targets[0] \
                            and isinstance(x.value, ast.Name) and \
                            x.value.id == cache and norm(x.slice) == ktxt and \
                            isinstance(x.ctx, ast.Load):
                        looked_up = True
                    if isinstance(x, ast.Call) and \
                            isinstance(x.func, ast.Attribute) and \
                            x.func.attr in ("get", "setdefault", "pop") and \
                            isinstance(x.func.value, ast.Name) and \
                            x.func.value.id == cache and x.args and \
                            norm(x.args[0]) == ktxt:
                        looked_up = True
                    if isinstance(x, ast.Compare) and len(x.ops) == 1 and \
                            isinstance(x.ops[0], (ast.In, ast.NotIn)) and \
                            norm(x.left) == ktxt and \
                            norm(x.comparators[0]) == cache:
                        looked_up = True
                if not looked_up:
                    continue
                n += 1
                # names the key is made of (through single definitions)
                key_names = set(names_in(key))
                for nm in list(key_names):
                    for d in defs.get(nm, []):
                        if d.kind == "assign" and d.value is not None and \
                                isinstance(d.value, (ast.Tuple, ast.List,
                                                     ast.Call)):
                            # key = (a, b) / key = tuple(a) : its parts
                            key_names |= names_in(d.value)
                # what the value is computed from, down to key names / roots
                leaves = set()
                seen = set()
                work = list(names_in(st.value))
                while work:
                    nm = work.pop()
                    if nm in seen:
                        continue
                    seen.add(nm)
                    if nm in key_names or nm not in varying:
                        leaves.add(nm)
                        continue
                    ds = [d for d in defs.get(nm, []) if d.value is not None
                          and d.kind == "assign"]
                    sub = set()
                    for d in ds:
                        sub |= names_in(d.value)
                    sub -= {nm}
                    if not ds or not sub:
                        leaves.add(nm)
                    else:
                        work.extend(sub)
                missing = sorted(x for x in leaves
                                 if x in varying and x not in key_names
                                 and x != cache)
                # callables / modules are not data
                missing = [x for x in missing if not (
                    x in m.functions or x in m.imports or x in m.classes)]
                col.add(rule, fn, "%s[%s] = %s" % (cache, ktxt[:30],
                                                   norm(st.value)[:30]),
                        not missing, "" if not missing else
                        "the value cached under `%s` is computed from %s, "
                        "which %s not part of the key: a later request that "
                        "differs only there gets the value computed for the "
                        "earlier one" % (ktxt[:40], ", ".join(
                            "`%s`" % x for x in missing),
                            "is" if len(missing) == 1 else "are"), node=st)
    col.add(rule, "package", "%d keyed caches" % n, True, "",
            nontrivial=False)


# ---------------------------------------------------------------------
def omitted_forward(repo, col, shorts):
    """A function that has a parameter p and calls a helper with an optional
    parameter of the same name without passing it lets the helper fall back
    to its default: the caller's p is silently ignored on that path."""
    rule = "E-SIB.forward"
    n = 0
    for ms in shorts:
        try:
            m = repo.module(ms)
        except Exception:
            continue
        for f in m.functions.values():
            own = set(f.params) - {"self", "cls"}
            if not own:
                continue
            direct = set()
            for c in calls_in(f.node):
                for x in list(c.args) + [k.value for k in c.keywords]:
                    if isinstance(x, ast.Name):
                        direct.add(id(x))
            consumed = {x.id for x in ast.walk(f.node)
                        if isinstance(x, ast.Name) and x.id in own and
                        isinstance(x.ctx, ast.Load) and id(x) not in direct}
            for c in calls_in(f.node):
                h = resolve_pkg_call(f, c)
                if h is None or h is f:
                    continue
                if any(k.arg is None for k in c.keywords) or \
                        any(isinstance(x, ast.Starred) for x in c.args):
                    continue
                a = h.node.args
                params = [x.arg for x in a.posonlyargs + a.args]
                if params and params[0] in ("self", "cls") and \
                        isinstance(c.func, ast.Attribute):
                    params = params[1:]
                nd = len(a.defaults)
                with_def = set(params[len(params) - nd:]) if nd else set()
                with_def |= {x.arg for x, d in zip(a.kwonlyargs, a.kw_defaults)
                             if d is not None}
                bound = set(params[:len(c.args)]) | \
                    {k.arg for k in c.keywords if k.arg}
                # the option travels inside another argument (a parameter
                # object built from it, a dict of options, ...)
                argnames = set()
                for x in list(c.args) + [k.value for k in c.keywords]:
                    argnames |= names_in(x)
                carried = closure_names(f.node, argnames)
                for p in sorted((with_def - bound) & own):
                    if p in carried and p not in argnames:
                        continue
                    if p in consumed:
                        # the caller acts on the option itself (tests it,
                        # computes with it): not a pure pass-through
                        continue
                    # only when the caller's p is otherwise unused or is
                    # forwarded by name elsewhere: it is the same option
                    n += 1
                    col.add(rule, f, "%s(...) without %s=" % (
                        h.qualname.split(".")[-1], p), False,
                        "%s has a parameter `%s` and calls %s, which takes an "
                        "optional `%s`, without passing it: on this path the "
                        "caller's value is ignored and the default (%s) is "
                        "used" % (f.qualname, p, h.qualname, p, norm(
                            dict(zip(params[len(params) - nd:], a.defaults))
                            .get(p, ast.Constant(value=None)))), node=c)
    col.add(rule, "package", "%d omitted same-named options" % n, True, "",
            nontrivial=False)


# ---------------------------------------------------------------------
def suppressing_context_in_main(repo, col):
    """A script's main() returns the status of its driver.  Under a context
    manager that swallows the error (its handler does not re-raise), the
    statement after the `with` is where a failed run continues: it has to
    return the failure status, not fall off the end of main()."""
    rule = "E-EXIT.suppressed"
    n = 0
    for m in repo.modules.values():
        if ".scripts." not in m.name:
            continue
        fn = m.functions.get("main")
        if fn is None:
            continue
        body = fn.node.body
        for i, st in enumerate(body):
            if not isinstance(st, ast.With):
                continue
            supp = None
            for it in st.items:
                c = it.context_expr
                if not isinstance(c, ast.Call):
                    continue
                h = resolve_pkg_call(fn, c)
                if h is None:
                    if (call_name(c) or "").endswith("suppress"):
                        supp = c
                    continue
                decos = [norm(d) for d in h.node.decorator_list]
                if not any("contextmanager" in d for d in decos):
                    continue
                for hd in ast.walk(h.node):
                    if isinstance(hd, ast.ExceptHandler):
                        from .core import block_always_raises
                        if not block_always_raises(hd.body):
                            supp = c
            if supp is None:
                continue
            n += 1
            rest = body[i + 1:]
            returns_status = any(
                isinstance(x, ast.Return) and x.value is not None and
                not (isinstance(x.value, ast.Constant) and
                     x.value.value in (None, 0))
                for r_ in rest for x in ast.walk(r_)) or any(
                isinstance(x, ast.Call) and
                (call_name(x) or "").endswith(("sys.exit", "exit"))
                for r_ in rest for x in ast.walk(r_))
            col.add(rule, fn, norm(supp)[:60], returns_status,
                    "" if returns_status else
                    "`%s` swallows the error of the enclosed command; "
                    "nothing after the with-block returns a failure status, "
                    "so main() returns None and the process exits 0 although "
                    "the command failed" % norm(supp)[:40], node=st)
    col.add(rule, "package", "%d suppressing contexts in main()" % n, True, "",
            nontrivial=False)


# ---------------------------------------------------------------------
INDEX_FUNCS = {"argmax", "argmin", "flatnonzero", "nonzero", "arange",
               "searchsorted", "argsort", "indices", "argwhere", "bincount"}


def index_plus_label_promotion(repo, col, shorts):
    """NumPy has no integer type that holds both uint64 and int64: adding an
    index array (int64, from argmax / flatnonzero / arange ...) to a uint64
    label gives float64, which rounds labels above 2**53.  Index results are
    cast to the data's dtype before they are combined with data values."""
    rule = "E-DTYPE.index-add"
    n = 0
    for ms in shorts:
        try:
            m = repo.module(ms)
        except Exception:
            continue
        for fn in m.functions.values():
            defs = local_defs(fn.node)
            params = set(fn.params) - {"self", "cls"}

            def is_index(e, depth=0):
                """Expression whose dtype is the platform index type."""
                if isinstance(e, ast.Call):
                    nm = (call_name(e) or "").split(".")[-1]
                    if nm in ("astype", "asarray", "array") and (
                            e.args[1:] or kwarg(e, "dtype") is not None or
                            nm == "astype"):
                        return False
                    if nm in INDEX_FUNCS and kwarg(e, "dtype") is None:
                        return True
                    if nm in ("int", "len"):
                        return False        # Python int: weak promotion
                    return False
                if isinstance(e, ast.Subscript):
                    return is_index(e.value, depth)
                if isinstance(e, ast.Name) and depth < 3:
                    ds = [d for d in defs.get(e.id, []) if d.value is not None
                          and d.kind == "assign"]
                    return bool(ds) and all(is_index(d.value, depth + 1)
                                            for d in ds)
                return False

            def is_data(e):
                """A value taken from the function's array arguments."""
                nms = names_in(e)
                # a scalar handed in by the caller that took it from the data
                # (lowest_label = chunk.min() in the caller)
                for nm in nms & params:
                    for g in m.functions.values():
                        for c in calls_in(g.node):
                            if resolve_local_call(g, c) is not fn:
                                continue
                            ps = [p for p in fn.params
                                  if p not in ("self", "cls")]
                            if isinstance(c.func, ast.Attribute) and \
                                    fn.params[:1] in (["self"], ["cls"]):
                                pass
                            idx = ps.index(nm) if nm in ps else None
                            if idx is None or idx >= len(c.args):
                                continue
                            a = c.args[idx]
                            gdefs = local_defs(g.node)
                            srcs = [a] + [
                                d.value for n2 in closure_names(
                                    g.node, names_in(a), gdefs)
                                for d in gdefs.get(n2, [])
                                if d.value is not None]
                            for s_ in list(srcs):
                                if isinstance(s_, ast.Call):
                                    h2 = resolve_local_call(g, s_)
                                    if h2 is not None:
                                        srcs += [r.value for r in
                                                 stmts_of(h2.node)
                                                 if isinstance(r, ast.Return)
                                                 and r.value is not None]
                                        hd = local_defs(h2.node)
                                        srcs += [d.value for r in
                                                 stmts_of(h2.node)
                                                 if isinstance(r, ast.Return)
                                                 and r.value is not None
                                                 for n3 in closure_names(
                                                     h2.node,
                                                     names_in(r.value), hd)
                                                 for d in hd.get(n3, [])
                                                 if d.value is not None]
                            if any(isinstance(x, ast.Call) and (
                                    call_name(x) or "").split(".")[-1] in (
                                        "min", "max", "amin", "amax")
                                    for s_ in srcs for x in ast.walk(s_)):
                                return True
                clos = closure_names(fn.node, nms, defs) | nms
                if not (clos & params):
                    return False
                t = norm(e)
                # reductions / elements of the data keep its dtype
                return any(isinstance(x, ast.Call) and (
                    call_name(x) or "").split(".")[-1] in (
                        "min", "max", "amin", "amax") for x in ast.walk(e)) \
                    or any(any(isinstance(x, ast.Call) and (
                        call_name(x) or "").split(".")[-1] in (
                            "min", "max", "amin", "amax")
                        for x in ast.walk(d.value))
                        for nm in nms for d in defs.get(nm, [])
                        if d.value is not None)
            for x in walk_local(fn.node):
                if isinstance(x, ast.BinOp) and isinstance(x.op, (ast.Add,
                                                                   ast.Sub)):
                    for a, b in ((x.left, x.right), (x.right, x.left)):
                        if is_index(a) and is_data(b):
                            n += 1
                            col.add(rule, fn, norm(x)[:70], False,
                                    "`%s` is an index array (int64) and `%s` "
                                    "a value of the data's own type: for "
                                    "uint64 data NumPy promotes the sum to "
                                    "float64 and labels above 2**53 are "
                                    "rounded" % (norm(a)[:40], norm(b)[:30]),
                                    node=x)
                            break
    col.add(rule, "package", "%d index + data sums" % n, True, "",
            nontrivial=False)


# ---------------------------------------------------------------------
def asarray_alias_inplace(repo, col, shorts):
    """np.asarray(x, dtype=float) returns x itself when x already has that
    type: an in-place operation on the result then changes the caller's
    array."""
    rule = "E-OWN.asarray-alias"
    n = 0
    for ms in shorts:
        try:
            m = repo.module(ms)
        except Exception:
            continue
        for fn in m.functions.values():
            defs = local_defs(fn.node)
            params = set(fn.params) - {"self", "cls"}
            if not params:
                continue
            low = fn.qualname.lower()
            if "inplace" in low or low.endswith("_into") or "out" in params:
                continue
            aliases = {}
            for name, ds in defs.items():
                real = [d for d in ds if d.kind == "assign" and
                        d.value is not None and d.index is None]
                if not real or len(real) != len([d for d in ds
                                                 if d.kind not in ("param",
                                                                   "aug")]):
                    continue
                srcs = set()
                for d in real:
                    v = d.value
                    if isinstance(v, ast.Call) and \
                            (call_name(v) or "").split(".")[-1] in (
                                "asarray", "asanyarray") and v.args and \
                            isinstance(v.args[0], ast.Name) and \
                            v.args[0].id in params:
                        srcs.add(v.args[0].id)
                    else:
                        srcs.add(None)
                if srcs and None not in srcs:
                    aliases[name] = sorted(srcs)[0]
            if not aliases:
                continue
            from .dataflow import control_names
            for st in stmts_of(fn.node):
                tgt = None
                if isinstance(st, ast.AugAssign):
                    t = st.target
                    while isinstance(t, ast.Subscript):
                        t = t.value
                    if isinstance(t, ast.Name):
                        tgt = t.id
                elif isinstance(st, ast.Assign) and \
                        isinstance(st.targets[0], ast.Subscript):
                    t = st.targets[0]
                    while isinstance(t, ast.Subscript):
                        t = t.value
                    if isinstance(t, ast.Name):
                        tgt = t.id
                if tgt not in aliases:
                    continue
                # deliberately in place when a parameter decides it
                ctl = closure_names(fn.node, control_names(fn.node, st), defs)
                if ctl & (params - {aliases[tgt]}):
                    continue
                n += 1
                col.add(rule, fn, norm(st)[:70], False,
                        "`%s` may be the caller's own array `%s` (np.asarray "
                        "does not copy when the type already matches): `%s` "
                        "changes it in place" % (tgt, aliases[tgt],
                                                 norm(st)[:40]), node=st)
    col.add(rule, "package", "%d in-place operations on asarray results" % n,
            True, "", nontrivial=False)


# ---------------------------------------------------------------------
def float_scale_factor(repo, col):
    """mesh-to-precomputed converts millimetres to nanometres by multiplying
    the point array: with an integer factor an integer-typed point array stays
    integer and overflows (int32 above 2147 mm)."""
    rule = "E-TABLE.units.float"
    fn = repo.func("scripts.mesh_to_precomputed", "mesh_file_to_precomputed")
    n = 0

    def int_valued(e, f, depth=0):
        """True/False/None: the scale expression is an exact Python int."""
        if isinstance(e, ast.Constant):
            return isinstance(e.value, int) and not isinstance(e.value, bool) \
                if isinstance(e.value, (int, float)) else None
        if isinstance(e, ast.BinOp) and isinstance(e.op, (ast.Pow, ast.Mult)):
            l, r = int_valued(e.left, f, depth), int_valued(e.right, f, depth)
            if l is None or r is None:
                return None
            return l and r
        if isinstance(e, ast.Call):
            nm = (call_name(e) or "").split(".")[-1]
            if nm == "float":
                return False
            if nm == "int":
                return True
            return None
        if isinstance(e, ast.Subscript) and depth < 3:
            tv = f.module.const(e.value.id) if isinstance(e.value, ast.Name) \
                else None
            if isinstance(tv, ast.Dict) and tv.values:
                vs = [int_valued(v, f, depth + 1) for v in tv.values]
                if all(v is True for v in vs):
                    return True
                if all(v is False for v in vs):
                    return False
            return None
        if isinstance(e, ast.Name) and depth < 3:
            v = f.module.const(e.id)
            if v is not None and e.id not in local_defs(f.node):
                return int_valued(v, f, depth + 1)
            ds = [d for d in local_defs(f.node).get(e.id, [])
                  if d.value is not None and d.kind == "assign"]
            if len(ds) == 1:
                return int_valued(ds[0].value, f, depth + 1)
        return None
    for f in helper_closure(fn, 2):
        for x in walk_local(f.node):
            if isinstance(x, ast.BinOp) and isinstance(x.op, ast.Mult):
                for a, b in ((x.left, x.right), (x.right, x.left)):
                    t = norm(b).lower()
                    if not ("point" in t or "vertices" in t or "coord" in t):
                        continue
                    iv = int_valued(a, f)
                    if iv is None:
                        continue
                    n += 1
                    col.add(rule, f, norm(x)[:60], not iv, "" if not iv else
                            "the scale `%s` is an exact integer: multiplied "
                            "with an integer-typed point array the product "
                            "stays in that integer type and wraps (int32 "
                            "coordinates above 2147 mm), where the float "
                            "factor 1e6 promoted it to float64"
                            % norm(a)[:30], node=x)
    if n == 0:
        col.add(rule, fn, "unit scale * points", True,
                "no scaling of the point array recognised", undecided=True)


# ---------------------------------------------------------------------
def remainder_any(repo, col):
    """scale-stats: the number of chunks along an axis is one more than the
    number of full chunks exactly when THAT axis has leftover voxels.
    Reducing the per-axis remainders with any() adds the partial chunk to
    every axis."""
    rule = "E-TILE.stats.remainder-any"
    fn = repo.func("scripts.scale_stats", "show_scales_info")
    n = 0
    for f in helper_closure(fn, 3):
        defs = local_defs(f.node)
        rem = set()
        for name, ds in defs.items():
            for d in ds:
                v = d.value
                if v is None:
                    continue
                if isinstance(v, ast.Call) and \
                        (call_name(v) or "").split(".")[-1] == "divmod" and \
                        d.index == 1:
                    rem.add(name)
                if isinstance(v, ast.BinOp) and isinstance(v.op, ast.Mod):
                    rem.add(name)
                if isinstance(v, ast.Call) and \
                        (call_name(v) or "").split(".")[-1] in (
                            "mod", "remainder", "fmod"):
                    rem.add(name)
        for x in walk_local(f.node):
            red = None
            if isinstance(x, ast.Call) and isinstance(x.func, ast.Attribute) \
                    and x.func.attr == "any" and not x.args and \
                    names_in(x.func.value) & rem:
                red = x
            if isinstance(x, ast.Call) and \
                    (call_name(x) or "") in ("any", "np.any", "numpy.any") \
                    and x.args and names_in(x.args[0]) & rem and not \
                    isinstance(x.args[0], (ast.GeneratorExp, ast.ListComp)):
                red = x
            if red is not None:
                n += 1
                col.add(rule, f, norm(red)[:50], False,
                        "`%s` is true as soon as ONE axis has leftover "
                        "voxels; used to add the partial chunk it adds one "
                        "chunk along every axis, so scales that are a "
                        "multiple of the chunk size on some axes only are "
                        "over-counted" % norm(red)[:40], node=red)
    col.add(rule, fn, "%d any() reductions of per-axis remainders" % n, True,
            "", nontrivial=False)


# ---------------------------------------------------------------------
def unbuffered_write_unchecked(repo, col, shorts):
    """open(..., buffering=0) returns a raw FileIO whose write() may store
    only part of the data and report the count: ignoring the count turns a
    full disk into a silently truncated file."""
    rule = "E-RES.unbuffered"
    n = 0
    for ms in shorts:
        try:
            m = repo.module(ms)
        except Exception:
            continue
        for fn in m.functions.values():
            raws = set()
            for w in ast.walk(fn.node):
                items = []
                if isinstance(w, ast.With):
                    items = [(it.context_expr, it.optional_vars)
                             for it in w.items]
                elif isinstance(w, ast.Assign) and len(w.targets) == 1:
                    items = [(w.value, w.targets[0])]
                for c, v in items:
                    if not (isinstance(c, ast.Call) and isinstance(v, ast.Name)):
                        continue
                    nm = call_name(c) or ""
                    if not (nm in ("open", "io.open") or
                            (isinstance(c.func, ast.Attribute) and
                             c.func.attr == "open")):
                        continue
                    b = kwarg(c, "buffering")
                    mode = kwarg(c, "mode") or (
                        c.args[1] if nm in ("open", "io.open") and
                        len(c.args) > 1 else (c.args[0] if c.args and
                                              nm not in ("open", "io.open")
                                              else None))
                    if b is not None and const_int(b) == 0 and \
                            isinstance(mode, ast.Constant) and \
                            isinstance(mode.value, str) and \
                            any(ch in mode.value for ch in "wax+"):
                        raws.add(v.id)
            for st in stmts_of(fn.node):
                if isinstance(st, ast.Expr) and isinstance(st.value, ast.Call) \
                        and isinstance(st.value.func, ast.Attribute) and \
                        st.value.func.attr == "write" and \
                        isinstance(st.value.func.value, ast.Name) and \
                        st.value.func.value.id in raws:
                    n += 1
                    col.add(rule, fn, norm(st.value)[:60], False,
                            "`%s` is opened unbuffered: this write() may "
                            "store fewer bytes than given and its return "
                            "value is dropped, so a write that stops at a "
                            "full disk or a size limit passes unnoticed"
                            % st.value.func.value.id, node=st)
    col.add(rule, "package", "%d unchecked writes to unbuffered files" % n,
            True, "", nontrivial=False)


# ---------------------------------------------------------------------
def cmc_entry_nonneg(repo, col):
    """get_cmc reaches the bit interleaving only through code that rejects
    negative grid coordinates."""
    rule = "E-BOUND.nonneg-index.entry"
    from .dataflow import raise_guards
    fn = repo.func("sharded_base", "ShardVolumeSpec.get_cmc")
    core = repo.func("sharded_base", "ShardVolumeSpec.compressed_morton_code")

    def has_nonneg_guard(f):
        for g, atoms in raise_guards(f.node):
            for a in atoms:
                for x, y, op in ((a.left, a.right, a.op),
                                 (a.right, a.left,
                                  {">=": "<=", "<=": ">=", ">": "<",
                                   "<": ">"}.get(a.op, a.op))):
                    if const_int(y) == 0 and op in (">=",):
                        return True
                    if const_int(y) == -1 and op == ">":
                        return True
        return False

    def interleaves(f):
        return any(isinstance(x, ast.BinOp) and isinstance(x.op, ast.LShift)
                   for x in ast.walk(f.node)) and any(
            isinstance(x, ast.BinOp) and isinstance(x.op, ast.RShift)
            for x in ast.walk(f.node))
    direct = [h for h in helper_closure(fn, 2) if h is not fn]
    through_core = any(h is core for h in direct)
    bypass = [h for h in direct if h is not core and interleaves(h)
              and not has_nonneg_guard(h)]
    ok = not bypass or has_nonneg_guard(fn)
    if bypass and not ok:
        col.add(rule, fn, "negative coordinates rejected before interleaving",
                False, "get_cmc computes the identifier through %s, which "
                "has no test for negative coordinates, and has none itself: a "
                "negative on-lattice position is interleaved as an all-ones "
                "pattern and aliases a real chunk" % bypass[0].qualname,
                node=fn.node)
    else:
        col.add(rule, fn, "negative coordinates rejected before interleaving",
                True, "through compressed_morton_code" if through_core else
                "", undecided=not through_core and not bypass and
                not has_nonneg_guard(fn))


# ---------------------------------------------------------------------
def shift_beyond_width(repo, col, shorts):
    """A 32-bit array shifted left by 32 or more is 0 (NumPy does not widen):
    the halves of a 64-bit value are widened before they are combined."""
    rule = "E-DTYPE.shift-width"
    n = 0
    W = {"<u4": 32, "u4": 32, "uint32": 32, "<I": 32, "I": 32, "<i4": 32,
         "int32": 32, "<u2": 16, "uint16": 16, "<H": 16, "uint8": 8, "u1": 8,
         "B": 8}
    for ms in shorts:
        try:
            m = repo.module(ms)
        except Exception:
            continue
        for fn in m.functions.values():
            defs = local_defs(fn.node)

            def width(e, depth=0):
                """Bit width of an array expression when it is known."""
                if isinstance(e, ast.Call):
                    nm = (call_name(e) or "").split(".")[-1]
                    if nm == "astype" and e.args:
                        return W.get(norm(e.args[0]).strip("'\""),
                                     64 if "8" in norm(e.args[0]) or
                                     "64" in norm(e.args[0]) else None)
                    if nm in ("frombuffer", "array", "asarray", "zeros",
                              "empty"):
                        d = kwarg(e, "dtype") or (e.args[1] if len(e.args) > 1
                                                  else None)
                        if d is not None:
                            return W.get(norm(d).strip("'\""))
                    return None
                if isinstance(e, ast.Subscript):
                    return width(e.value, depth)
                if isinstance(e, ast.Name) and depth < 3:
                    ws = {width(d.value, depth + 1)
                          for d in defs.get(e.id, []) if d.value is not None}
                    return ws.pop() if len(ws) == 1 else None
                return None
            for x in walk_local(fn.node):
                if isinstance(x, ast.BinOp) and isinstance(x.op, ast.LShift):
                    k = const_int(x.right)
                    if k is None and isinstance(x.right, ast.Call) and \
                            x.right.args:
                        k = const_int(x.right.args[0])
                    w = width(x.left)
                    if k is not None and w is not None:
                        n += 1
                        col.add(rule, fn, norm(x)[:60], k < w, "" if k < w
                                else "`%s` is a %d-bit array and is shifted "
                                "left by %d: the result is 0, the upper half "
                                "of the 64-bit value is lost"
                                % (norm(x.left)[:40], w, k), node=x)
    col.add(rule, "package", "%d shifts of arrays of known width" % n, True,
            "", nontrivial=False)


# ---------------------------------------------------------------------
def temporary_state_used_after(repo, col, shorts):
    """A context manager that changes attributes of the object it is given
    and restores them in a `finally` makes the change valid only inside the
    with-block: using that object (or an alias of it) after the block reads it
    in its restored state - which matters for lazily evaluated objects such
    as a nibabel array proxy."""
    rule = "E-ORDER.temporary-state"
    n = 0
    for ms in shorts:
        try:
            m = repo.module(ms)
        except Exception:
            continue
        temp_cms = {}
        for f in m.functions.values():
            if not any("contextmanager" in norm(d)
                       for d in f.node.decorator_list):
                continue
            params = [p for p in f.params if p not in ("self", "cls")]
            for tr in ast.walk(f.node):
                if not (isinstance(tr, ast.Try) and tr.finalbody and any(
                        isinstance(x, ast.Yield) for b in tr.body
                        for x in ast.walk(b))):
                    continue
                restored = set()
                for st in tr.finalbody:
                    for x in ast.walk(st):
                        if isinstance(x, ast.Attribute) and \
                                isinstance(x.ctx, ast.Store) and \
                                isinstance(x.value, ast.Name) and \
                                x.value.id in params:
                            restored.add(x.value.id)
                        if isinstance(x, ast.Call):
                            for a in x.args:
                                if isinstance(a, ast.Name) and a.id in params:
                                    restored.add(a.id)
                for p in restored:
                    temp_cms[f.qualname.split(".")[-1]] = (f, params.index(p))
        if not temp_cms:
            continue
        for f in m.functions.values():
            defs = local_defs(f.node)
            for w in ast.walk(f.node):
                if not isinstance(w, ast.With):
                    continue
                for it in w.items:
                    c = it.context_expr
                    if not (isinstance(c, ast.Call) and
                            (call_name(c) or "").split(".")[-1] in temp_cms):
                        continue
                    cm, idx = temp_cms[(call_name(c) or "").split(".")[-1]]
                    aliases = set()
                    if idx < len(c.args) and isinstance(c.args[idx], ast.Name):
                        aliases.add(c.args[idx].id)
                    if isinstance(it.optional_vars, ast.Name):
                        # `with cm(x.attr) as obj`: the managed object itself
                        aliases.add(it.optional_vars.id)
                    if not aliases:
                        continue
                    obj = sorted(aliases)[0]
                    # names that may be the same object
                    for name, ds in defs.items():
                        if any(isinstance(d.value, ast.Name) and
                               d.value.id in aliases for d in ds):
                            aliases.add(name)
                    inside = {id(x) for x in ast.walk(w)}
                    end = getattr(w, "end_lineno", w.lineno)
                    later = [x for x in walk_local(f.node)
                             if isinstance(x, ast.Name) and x.id in aliases
                             and isinstance(x.ctx, ast.Load) and
                             id(x) not in inside and
                             getattr(x, "lineno", 0) > end]
                    n += 1
                    col.add(rule, f, norm(c)[:60], not later, "" if not later
                            else "`%s` changes `%s` only for the duration of "
                            "the with-block (it is restored in a finally), "
                            "but `%s` is still used after the block (line "
                            "%d): whatever is read from it lazily then sees "
                            "the restored state"
                            % (norm(c)[:40], obj, later[0].id,
                               later[0].lineno), node=later[0] if later else c)
    col.add(rule, "package", "%d temporary-state context managers in use" % n,
            True, "", nontrivial=False)


# ---------------------------------------------------------------------
def deferred_error_checked(repo, col, shorts):
    """A worker that stashes an exception on the object (`self._error = exc`)
    defers the failure to whoever looks at that attribute: the methods that
    end the work (close, __exit__, join, flush) must look at it, or an error
    on the last item is never reported."""
    rule = "E-EXC.deferred"
    n = 0
    for ms in shorts:
        try:
            m = repo.module(ms)
        except Exception:
            continue
        for cls in m.classes.values():
            stash = set()
            for f in cls.methods.values():
                for h in ast.walk(f.node):
                    if isinstance(h, ast.ExceptHandler) and h.name:
                        for st in ast.walk(h):
                            if isinstance(st, ast.Assign) and \
                                    isinstance(st.value, ast.Name) and \
                                    st.value.id == h.name:
                                for t in st.targets:
                                    if isinstance(t, ast.Attribute) and \
                                            isinstance(t.value, ast.Name) and \
                                            t.value.id == "self":
                                        stash.add(t.attr)
            if not stash:
                continue
            enders = [f for name, f in cls.methods.items()
                      if name in ("close", "__exit__", "join", "finish",
                                  "flush", "shutdown", "wait")]
            for f in enders:
                # __exit__ that only calls close() is covered by close()
                txt = " ".join(norm(h.node) for h in helper_closure(f, 2))
                for a in sorted(stash):
                    n += 1
                    ok = ("self.%s" % a) in txt
                    col.add(rule, f, "self.%s examined" % a, ok, "" if ok else
                            "%s stores a worker's exception in self.%s, but "
                            "%s ends the work without looking at it: a "
                            "failure of the last submitted item is swallowed"
                            % (cls.name, a, f.qualname), node=f.node)
    col.add(rule, "package", "%d end-of-work methods of classes that defer "
            "errors" % n, True, "", nontrivial=False)


# ---------------------------------------------------------------------
def _helper_reduction(h, e):
    """e (in helper h) is an array reduction that was not converted to a
    Python number."""
    hd = local_defs(h.node)
    if isinstance(e, ast.Call):
        nm = (call_name(e) or "").split(".")[-1]
        if nm in ("item", "int", "float", "tolist"):
            return False
        return nm in ("min", "max", "amin", "amax", "nanmin", "nanmax") and \
            isinstance(e.func, ast.Attribute)
    if isinstance(e, ast.Name):
        ds = [d for d in hd.get(e.id, []) if d.value is not None]
        return bool(ds) and all(_helper_reduction(h, d.value) for d in ds)
    return False


def numpy_scalar_vs_int_bound(repo, col, shorts=("data_types",)):
    """`chunk.max() <= np.iinfo(t).max`: the reduction is a NumPy scalar of the
    chunk's dtype and NumPy converts the Python-int bound to that dtype before
    comparing - float32(4294967295) is 4294967296.0, so a value one above the
    limit passes.  The extrema are converted with .item() / int() / float()
    (or the bound is compared in a wider type)."""
    rule = "E-DTYPE.scalar-compare"
    n = 0
    for ms in shorts:
        try:
            m = repo.module(ms)
        except Exception:
            continue
        for f in m.functions.values():
            defs = local_defs(f.node)

            def is_reduction(e, depth=0):
                if isinstance(e, ast.Call):
                    nm = (call_name(e) or "").split(".")[-1]
                    if nm in ("item", "int", "float", "tolist"):
                        return False
                    if nm in ("min", "max", "amin", "amax", "nanmin",
                              "nanmax") and (
                                  isinstance(e.func, ast.Attribute)):
                        return not (isinstance(e.func.value, ast.Name) and
                                    e.func.value.id in ("builtins",))
                    return False
                if isinstance(e, ast.Name) and depth < 3:
                    ds = [d for d in defs.get(e.id, []) if d.value is not None]
                    if ds and all(d.kind == "assign" for d in ds):
                        vals = []
                        for d in ds:
                            v = d.value
                            if d.index is not None and isinstance(
                                    v, (ast.Tuple, ast.List)) and \
                                    d.index < len(v.elts):
                                v = v.elts[d.index]
                            if isinstance(v, ast.Call):
                                h = resolve_local_call(f, v)
                                if h is not None and h is not f:
                                    # lo, hi = _value_range(chunk)
                                    rv = []
                                    for r in stmts_of(h.node):
                                        if isinstance(r, ast.Return) and \
                                                r.value is not None:
                                            x_ = r.value
                                            if d.index is not None and \
                                                    isinstance(x_, (ast.Tuple,
                                                                    ast.List)) \
                                                    and d.index < len(x_.elts):
                                                x_ = x_.elts[d.index]
                                            if isinstance(x_, ast.Constant):
                                                continue    # (None, None)
                                            rv.append(_helper_reduction(h, x_))
                                    vals.append(bool(rv) and all(rv))
                                    continue
                            vals.append(is_reduction(v, depth + 1))
                        return all(vals)
                    # a parameter that callers fill with a reduction
                    if any(d.kind == "param" for d in defs.get(e.id, [])):
                        for g in m.functions.values():
                            for c in calls_in(g.node):
                                if resolve_local_call(g, c) is f:
                                    ps = [p for p in f.params
                                          if p not in ("self", "cls")]
                                    if e.id in ps and \
                                            ps.index(e.id) < len(c.args):
                                        a = c.args[ps.index(e.id)]
                                        gd = local_defs(g.node)
                                        if isinstance(a, ast.Call) and \
                                                (call_name(a) or "").split(
                                                    ".")[-1] in ("min", "max"):
                                            return True
                                        if isinstance(a, ast.Name) and any(
                                                isinstance(d.value, ast.Call)
                                                and (call_name(d.value) or ""
                                                     ).split(".")[-1] in (
                                                         "min", "max")
                                                for d in gd.get(a.id, [])):
                                            return True
                return False

            def is_int_bound(e, depth=0):
                t = norm(e)
                if "iinfo(" in t:
                    return True
                if isinstance(e, ast.Name) and depth < 3 and any(
                        d.kind == "param" for d in defs.get(e.id, [])):
                    # a bound handed in by the callers
                    for g in m.functions.values():
                        for c in calls_in(g.node):
                            if resolve_local_call(g, c) is not f:
                                continue
                            ps = [p for p in f.params
                                  if p not in ("self", "cls")]
                            if e.id in ps and ps.index(e.id) < len(c.args):
                                a = c.args[ps.index(e.id)]
                                scopes = [g]
                                while scopes[-1].parent is not None:
                                    scopes.append(scopes[-1].parent)
                                for sc in scopes:
                                    for d in local_defs(sc.node).get(
                                            a.id if isinstance(a, ast.Name)
                                            else "", []):
                                        if d.value is not None and \
                                                "iinfo(" in norm(d.value):
                                            return True
                                if "iinfo(" in norm(a):
                                    return True
                if isinstance(e, ast.Name) and depth < 3:
                    if any(d.value is not None and
                           is_int_bound(d.value, depth + 1)
                           for d in defs.get(e.id, [])):
                        return True
                    # closure variable of the enclosing function
                    g = f.parent
                    while g is not None:
                        if any(d.value is not None and
                               "iinfo(" in norm(d.value)
                               for d in local_defs(g.node).get(e.id, [])):
                            return True
                        g = g.parent
                return False
            for x in walk_local(f.node):
                if isinstance(x, ast.Compare) and len(x.ops) >= 1:
                    sides = [x.left] + list(x.comparators)
                    for a, b in zip(sides, sides[1:]):
                        for u, v in ((a, b), (b, a)):
                            if is_reduction(u) and is_int_bound(v):
                                n += 1
                                col.add(rule, f, norm(x)[:70], False,
                                        "`%s` is a NumPy scalar of the "
                                        "array's dtype; compared with the "
                                        "integer limit `%s` NumPy first "
                                        "converts the limit to that dtype "
                                        "(float32(2**32-1) == 2**32), so a "
                                        "value just beyond the limit counts "
                                        "as in range" % (norm(u)[:30],
                                                         norm(v)[:30]),
                                        node=x)
    col.add(rule, "package", "%d comparisons of array extrema with integer "
            "limits" % n, True, "", nontrivial=False)


# ---------------------------------------------------------------------
def module_table_mutated(repo, col, shorts):
    """A module-level table that is written with its entries (defaults,
    registries) is shared by every call: a function that stores into it (or
    into a local that is the table itself, not a copy) changes the defaults
    of the whole process."""
    rule = "E-STATE.module-table"
    n = 0
    for ms in shorts:
        try:
            m = repo.module(ms)
        except Exception:
            continue
        tables = {name for name, v in m.constants.items()
                  if (isinstance(v, ast.Dict) and v.keys) or
                  (isinstance(v, (ast.List, ast.Set)) and v.elts)}
        if not tables:
            continue
        for f in m.functions.values():
            defs = local_defs(f.node)
            aliases = {}
            for name, ds in defs.items():
                real = [d for d in ds if d.kind != "param"]
                if real and all(isinstance(d.value, ast.Name) and
                                d.value.id in tables and d.kind == "assign"
                                and d.index is None for d in real):
                    aliases[name] = real[0].value.id
            for t in tables:
                if t not in defs:
                    aliases[t] = t
            for x in walk_local(f.node):
                tgt = None
                if isinstance(x, (ast.Assign, ast.AugAssign)):
                    tg = x.targets if isinstance(x, ast.Assign) else [x.target]
                    for t_ in tg:
                        if isinstance(t_, ast.Subscript) and \
                                isinstance(t_.value, ast.Name) and \
                                t_.value.id in aliases:
                            tgt = t_.value.id
                if isinstance(x, ast.Call) and \
                        isinstance(x.func, ast.Attribute) and \
                        x.func.attr in ("update", "setdefault", "pop", "clear",
                                        "append", "extend", "add", "remove",
                                        "insert", "popitem") and \
                        isinstance(x.func.value, ast.Name) and \
                        x.func.value.id in aliases:
                    tgt = x.func.value.id
                if tgt is not None:
                    n += 1
                    col.add(rule, f, norm(x)[:60], False,
                            "`%s` is the module-level table `%s` itself (no "
                            "copy was made): this store changes it for every "
                            "later call in the process"
                            % (tgt, aliases[tgt]), node=x)
    col.add(rule, "package", "%d stores into module-level tables" % n, True,
            "", nontrivial=False)


# ---------------------------------------------------------------------
def vacuous_all_in_predicate(repo, col):
    """info_is_sharded: `all(...)` is true for an empty list; a dataset
    without scales (a mesh directory) is not a sharded volume."""
    rule = "E-SIB.dispatch.nonempty"
    fn = repo.func("sharded_base", "ShardedAccessorBase.info_is_sharded")
    rets = [r.value for f in helper_closure(fn, 1) for r in stmts_of(f.node)
            if isinstance(r, ast.Return) and r.value is not None]
    alls = [x for v in rets for x in ast.walk(v) if isinstance(x, ast.Call)
            and (call_name(x) or "") in ("all", "np.all", "numpy.all")]
    if not alls:
        col.add(rule, fn, "all(...) over the scales", True,
                "predicate not in the recognised form", undecided=True)
        return
    txt = " ".join(norm(f.node) for f in helper_closure(fn, 1))
    nonempty = "len(" in txt or any(
        isinstance(v, ast.BoolOp) and isinstance(v.op, ast.And) and any(
            isinstance(x, ast.Name) for x in v.values) for v in rets) or \
        "bool(" in txt and "and" in txt or " > 0" in txt or "!= []" in txt
    col.add(rule, fn, norm(alls[0])[:60], nonempty, "" if nonempty else
            "`%s` is also true when there are no scales at all: an info "
            "without scales is then taken for a sharded dataset and "
            "dispatched to the sharded accessor" % norm(alls[0])[:40],
            node=alls[0])


# ---------------------------------------------------------------------
def param_reordered_in_place(repo, col, shorts):
    """`.reverse()` / `.sort()` on a list that was passed in (or on an element
    of one) re-orders the caller's list."""
    rule = "E-OWN.param-reorder"
    n = 0
    for ms in shorts:
        try:
            m = repo.module(ms)
        except Exception:
            continue
        for f in m.functions.values():
            params = set(f.params) - {"self", "cls"}
            if not params:
                continue
            defs = local_defs(f.node)

            def from_param(name, depth=0):
                """Parameter the name is (an element of) without a copy."""
                if name in params and all(
                        d.kind == "param" for d in defs.get(name, [])):
                    return name
                if depth > 3:
                    return None
                for d in defs.get(name, []):
                    v = d.value
                    if v is None:
                        continue
                    if d.elem and isinstance(v, ast.Name):
                        p = from_param(v.id, depth + 1)
                        if p:
                            return p
                    if isinstance(v, ast.Name) and not d.elem:
                        p = from_param(v.id, depth + 1)
                        if p:
                            return p
                    if isinstance(v, (ast.ListComp, ast.GeneratorExp)) and \
                            not d.elem and len(v.generators) == 1 and \
                            isinstance(v.generators[0].target, ast.Name) and \
                            isinstance(v.generators[0].iter, ast.Name):
                        # [x if keep(x) else copy(x) for x in src]: some
                        # elements are the caller's own objects
                        tv = v.generators[0].target.id
                        branches = [v.elt]
                        if isinstance(v.elt, ast.IfExp):
                            branches = [v.elt.body, v.elt.orelse]
                        if any(isinstance(b, ast.Name) and b.id == tv
                               for b in branches):
                            src = v.generators[0].iter.id
                            if src == name and src in params:
                                return src
                            p = from_param(src, depth + 1)
                            if p:
                                return p
                    if isinstance(v, ast.Call) and not d.elem:
                        # a helper that hands its argument back unchanged
                        h = resolve_local_call(f, v)
                        if h is not None and h is not f:
                            hp = [q for q in h.params
                                  if q not in ("self", "cls")]
                            for r in stmts_of(h.node):
                                if isinstance(r, ast.Return) and \
                                        r.value is not None:
                                    rv = r.value
                                    # [x if isinstance(x, list) else list(x)]
                                    for y in ast.walk(rv):
                                        if isinstance(y, ast.Name) and \
                                                y.id in hp and \
                                                hp.index(y.id) < len(v.args) \
                                                and isinstance(
                                                    v.args[hp.index(y.id)],
                                                    ast.Name) and not \
                                                isinstance(rv, ast.Call):
                                            an = v.args[hp.index(y.id)].id
                                            if an == name and an in params:
                                                return an
                                            p = from_param(an, depth + 1)
                                            if p:
                                                return p
                return None
            for c in calls_in(f.node):
                if isinstance(c.func, ast.Attribute) and \
                        c.func.attr in ("reverse", "sort") and \
                        isinstance(c.func.value, ast.Name) and not c.args:
                    p = from_param(c.func.value.id)
                    n += 1
                    col.add(rule, f, norm(c)[:50], p is None, "" if p is None
                            else "`%s` re-orders in place a list that comes "
                            "from the parameter `%s` without a copy: the "
                            "caller's list is changed, and a second use of "
                            "it (another channel, a later call) sees the "
                            "new order" % (norm(c)[:30], p), node=c)
    col.add(rule, "package", "%d in-place re-orderings" % n, True, "",
            nontrivial=False)


# ---------------------------------------------------------------------
# "gzip" in the sharding specification means gzip framing (RFC 1952), which
# is what a reader written from the specification decodes; zlib.compress
# writes a zlib stream (RFC 1950), which gzip decoders reject  (C04)
# ---------------------------------------------------------------------
def gzip_framing(repo, col, shorts=("sharded_base", "sharded_file_accessor")):
    rule = "E-SPEC.sharded.gzip-framing"
    n = 0

    def wbits_of(call, pos):
        v = kwarg(call, "wbits")
        if v is None and len(call.args) > pos:
            v = call.args[pos]
        return v

    for ms in shorts:
        try:
            m = repo.module(ms)
        except Exception:
            continue
        for fn in m.functions.values():
            for c in calls_in(fn.node):
                nm = dotted(c.func) or ""
                full = m.resolve(nm) or nm
                if full in ("gzip.compress", "gzip.GzipFile", "gzip.open"):
                    n += 1
                    col.add(rule, m.short, "%s: gzip framing" % full, True,
                            loc=fn.loc(c))
                    continue
                if full == "zlib.compress":
                    w = wbits_of(c, 2)
                elif full == "zlib.compressobj":
                    w = wbits_of(c, 3)
                else:
                    continue
                n += 1
                wv = const_int(w) if w is not None else 15
                if wv is None:
                    col.add(rule, m.short, "%s(wbits=%s)" % (full, norm(w)),
                            True, "window-bits argument is not a constant",
                            loc=fn.loc(c), undecided=True)
                    continue
                ok = 25 <= wv <= 31
                col.add(rule, m.short, "%s: %s" % (
                    full, "gzip framing" if ok else "zlib framing under 'gzip'"),
                    ok, "" if ok else
                    "the encoder for the \"gzip\" encoding of the sharding "
                    "specification writes a zlib stream (RFC 1950, header "
                    "78 9c), not gzip (RFC 1952, header 1f 8b): a reader "
                    "implemented from the specification cannot decompress "
                    "the minishard index / chunk data (in %s)" % fn.qualname,
                    loc=fn.loc(c))
    if n == 0:
        col.add(rule, "sharded_base", "compression call of the 'gzip' encoding",
                True, "no zlib / gzip compression call found in the sharded "
                "writer modules", undecided=True)
    return n


# ---------------------------------------------------------------------
# the bytes of a minishard index (built from the minishard's `header`
# triples) go through the index codec: the reader decodes them with
# minishard_index_encoding, whatever data_encoding says  (C04, C05)
# ---------------------------------------------------------------------
def index_bytes_use_index_codec(repo, col, shorts=("sharded_file_accessor",
                                                    "sharded_base")):
    from .core import attr_constants, expand_attrs
    rule = "E-SIB.codec-role"
    n = 0
    for ms in shorts:
        try:
            m = repo.module(ms)
        except Exception:
            continue
        for fn in m.functions.values():
            table = attr_constants(repo, fn.cls) if fn.cls is not None else {}
            defs = local_defs(fn.node)

            def from_header(e):
                names = names_in(e)
                if any(isinstance(x, ast.Attribute) and x.attr == "header"
                       for x in ast.walk(e)) or "header" in names:
                    return True
                for nm in closure_names(fn.node, names, defs):
                    if nm == "header":
                        return True
                    for d in defs.get(nm, []):
                        if d.value is not None and any(
                                isinstance(x, ast.Attribute) and
                                x.attr == "header"
                                for x in ast.walk(d.value)):
                            return True
                return False
            for c in calls_in(fn.node):
                if not c.args or not from_header(c.args[0]):
                    continue
                f_ = c.func
                kind = None
                t = norm(expand_attrs(f_, table))
                if t.endswith("index_encoder") or t == "index_encoder":
                    kind = "index"
                elif t.endswith("data_encoder"):
                    kind = "data"
                elif isinstance(f_, ast.Attribute) and f_.attr in (
                        "encode", "compress") and \
                        not isinstance(f_.value, ast.Constant):
                    recv = norm(expand_attrs(f_.value, table))
                    if recv in ("zlib", "gzip", "struct"):
                        continue
                    kind = "index" if "index" in recv else \
                        "data" if "data" in recv else "other"
                if kind is None:
                    continue
                n += 1
                col.add(rule, fn, "%s(<minishard index>)" % t[:50],
                        kind != "data",
                        "" if kind == "index" else
                        "the minishard index is encoded with the data codec "
                        "(%s): readers decode it with minishard_index_encoding, "
                        "so a dataset whose two encodings differ cannot be "
                        "read" % t if kind == "data" else
                        "codec of the minishard index not identified",
                        node=c, undecided=kind == "other")
    if n == 0:
        col.add(rule, "sharded_file_accessor", "encoding of the minishard "
                "index", True, "no encoder call on bytes derived from a "
                "minishard `header` found", undecided=True)
    return n


# ---------------------------------------------------------------------
# what is measured is what is written: a file offset advanced by len(V)
# while the bytes written are encode(V) points past (or before) the data
# as soon as the encoding changes the length  (C04, C05, C13)
# ---------------------------------------------------------------------
_ENC_WORDS = ("encode", "encoder", "compress")


def measured_is_written(repo, col, shorts=("sharded_file_accessor",
                                           "sharded_base")):
    rule = "E-ORDER.measure-written"
    n = 0
    for ms in shorts:
        try:
            m = repo.module(ms)
        except Exception:
            continue
        for fn in m.functions.values():
            defs = local_defs(fn.node)
            for c in calls_in(fn.node):
                if not (isinstance(c.func, ast.Attribute) and
                        c.func.attr == "write" and len(c.args) == 1):
                    continue
                w = c.args[0]
                if not (isinstance(w, ast.Call) and len(w.args) == 1 and
                        isinstance(w.args[0], ast.Name) and
                        (call_name(w) or "").split(".")[-1].lower()
                        .endswith(_ENC_WORDS)):
                    continue
                v = w.args[0].id
                # V bound once (not re-bound to the encoded bytes)
                if len([d for d in defs.get(v, []) if d.kind != "param"]) > 1:
                    continue
                measures = [x for x in walk_local(fn.node)
                            if isinstance(x, ast.Call) and
                            call_name(x) == "len" and len(x.args) == 1 and
                            isinstance(x.args[0], ast.Name) and
                            x.args[0].id == v and
                            x.lineno >= c.lineno]
                n += 1
                col.add(rule, fn, "write(%s(%s)) / len(%s)" % (
                    (call_name(w) or "").split(".")[-1], v, v), not measures,
                    "" if not measures else
                    "the bytes written are %s(%s) but the length recorded "
                    "afterwards is len(%s), the length before encoding: with "
                    "an encoding that changes the length (gzip) the offsets "
                    "derived from it do not delimit what is in the file"
                    % (call_name(w), v, v), node=c)
    col.add(rule, "package", "%d writes of freshly encoded bytes" % n, True,
            "", nontrivial=False)
    return n


# ---------------------------------------------------------------------
# a file stored under a name with directories in it needs those directories:
# every write-open of the plain-file accessor is preceded by the creation of
# the parent directory  (C12)
# ---------------------------------------------------------------------
def store_creates_parents(repo, col):
    from .core import specialise, enclosing_stmt_map
    rule = "E-SIB.store.parents"

    def is_mkdir(f, c):
        nm = f.module.resolve(call_name(c) or "") or ""
        if nm in ("os.makedirs", "os.mkdir"):
            return True
        return isinstance(c.func, ast.Attribute) and c.func.attr == "mkdir" \
            and any(k.arg == "parents" and isinstance(k.value, ast.Constant)
                    and k.value.value is True for k in c.keywords)

    def is_wopen(f, c):
        nm = f.module.resolve(call_name(c) or "") or ""
        mode = None
        if nm in ("open", "gzip.open", "gzip.GzipFile", "io.open") or \
                (isinstance(c.func, ast.Attribute) and c.func.attr == "open"
                 and nm != "os.open") or \
                (isinstance(c.func, ast.Name) and c.func.id in f.params):
            for a in list(c.args) + [k.value for k in c.keywords]:
                t = norm(a)
                if isinstance(a, ast.Constant) and isinstance(a.value, str) \
                        and a.value[:1] in ("w", "x", "a"):
                    mode = a.value
                elif "'wb'" in t or "'xb'" in t or t in ("mode",):
                    mode = t
            return mode is not None
        return False

    def summary(f, depth=0):
        """(opens, every path to each open passes a mkdir) for f, following
        calls to package helpers specialised to their constant arguments."""
        cfg = f.cfg()
        owner = enclosing_stmt_map(f.node)
        mk, opens, undecided = [], [], False
        for c in calls_in(f.node):
            st = owner.get(id(c))
            n_ = cfg.node_of(st) if st is not None else None
            if n_ is None:
                continue
            if is_mkdir(f, c):
                mk.append(n_)
            elif is_wopen(f, c):
                opens.append((n_, c, False))
            elif depth < 2:
                h = resolve_local_call(f, c)
                if h is None or h.key == f.key:
                    continue
                hv = specialise(h, c, bound=isinstance(c.func, ast.Attribute))
                if hv is None:
                    continue
                sub = summary(hv, depth + 1)
                if sub is None:
                    continue
                h_opens, h_ok, h_mk_all = sub
                if h_mk_all:
                    mk.append(n_)       # the helper always creates parents
                if h_opens:
                    opens.append((n_, c, h_ok))
        if not opens:
            # does every normal path create the parents?
            all_mk = bool(mk) and cfg.every_path_passes(cfg.entry, cfg.exit,
                                                        mk)
            return [], True, all_mk
        ok = True
        for n_, c, inner_ok in opens:
            if inner_ok:
                continue
            if not mk or not cfg.every_path_passes(cfg.entry, n_, mk):
                ok = False
        all_mk = bool(mk) and cfg.every_path_passes(cfg.entry, cfg.exit, mk)
        return opens, ok, all_mk

    for mname in ("store_file", "store_chunk"):
        fn = repo.func("file_accessor", "FileAccessor." + mname)
        opens, ok, _ = summary(fn)
        if not opens:
            col.add(rule, fn, "parent directory created before the file is "
                    "opened", True, "no write-open recognised in %s or its "
                    "helpers" % fn.key, undecided=True)
            continue
        col.add(rule, fn, "parent directory created before the file is "
                "opened", ok, "" if ok else
                "a path opens the output file without having created its "
                "parent directory: storing `a/b` in a dataset directory that "
                "has no `a` yet fails", node=opens[0][1])


# ---------------------------------------------------------------------
# a plain pathname is used as it is; only a file:// URL is percent-decoded:
# `scan%20A` is a legal directory name  (C12)
# ---------------------------------------------------------------------
def percent_decoding_only_for_file_urls(repo, col, short="accessor"):
    from .core import enclosing_stmt_map, expand_properties
    from .dataflow import holds
    rule = "E-SIB.url.plain-path"
    try:
        m = repo.module(short)
    except Exception:
        return 0
    n = 0
    for fn in m.functions.values():
        sites = [c for c in calls_in(fn.node)
                 if (m.resolve(call_name(c) or "") or "") in (
                     "urllib.request.url2pathname", "urllib.parse.unquote",
                     "urllib.parse.unquote_plus",
                     "urllib.parse.unquote_to_bytes")]
        if not sites:
            continue
        cfg = fn.cfg()
        owner = enclosing_stmt_map(fn.node)
        for c in sites:
            st = owner.get(id(c))
            tn = cfg.node_of(st) if st is not None else None
            if tn is None:
                continue
            allowed, excluded, seen = None, set(), False
            for tnode in cfg.nodes:
                if tnode.kind != "test" or tnode.ast is None or tnode is tn:
                    continue
                test = getattr(tnode.ast, "test", None)
                if test is None:
                    continue
                test = expand_properties(repo, m, test)
                if "scheme" not in norm(test):
                    continue
                via = set()
                for s in tnode.succ:
                    tag = cfg.branch.get((tnode.id, s.id))
                    if tag in (True, False) and (
                            s.id == tn.id or tn.id in cfg.reachable(s)):
                        via.add(tag)
                if len(via) != 1 or not cfg.every_path_passes(
                        cfg.entry, tn, [tnode]):
                    continue
                for a in holds(test, via.pop()):
                    for b in (a, a.flipped()):
                        if not norm(b.left).endswith("scheme"):
                            continue
                        vals = None
                        if isinstance(b.right, ast.Constant) and \
                                isinstance(b.right.value, str):
                            vals = {b.right.value}
                        elif isinstance(b.right, (ast.Tuple, ast.List,
                                                  ast.Set)) and all(
                                isinstance(e, ast.Constant)
                                for e in b.right.elts):
                            vals = {e.value for e in b.right.elts}
                        elif isinstance(b.right, (ast.Name, ast.Attribute)):
                            v = None
                            if isinstance(b.right, ast.Name):
                                v = m.const(b.right.id)
                            elif isinstance(b.right.value, ast.Name) and \
                                    b.right.value.id in ("self", "cls") and \
                                    fn.cls is not None:
                                for cc in repo.mro(fn.cls):
                                    if b.right.attr in cc.class_attrs:
                                        v = cc.class_attrs[b.right.attr]
                                        break
                            if isinstance(v, (ast.Tuple, ast.List, ast.Set)) \
                                    and all(isinstance(e, ast.Constant)
                                            for e in v.elts):
                                vals = {e.value for e in v.elts}
                        if vals is None:
                            continue
                        seen = True
                        if b.op in ("==", "in"):
                            allowed = vals if allowed is None \
                                else allowed & vals
                        elif b.op in ("!=", "not in"):
                            excluded |= vals
            n += 1
            plain_possible = ("" not in excluded) and (
                allowed is None or "" in allowed)
            col.add(rule, fn, norm(c)[:60], not (seen and plain_possible),
                    "" if not plain_possible else
                    "the path is percent-decoded on a path where the scheme "
                    "may be empty (%s): a plain pathname such as `scan%%20A` "
                    "is turned into another name" % (
                        "scheme in %s" % sorted(allowed) if allowed
                        else "no test excludes it"),
                    node=c, undecided=not seen)
    if n == 0:
        col.add(rule, short, "percent-decoding of URL paths", True,
                "no url2pathname / unquote call in %s" % short, undecided=True)
    return n
