"""Closed-world rules added after the second round of independently seeded
changes.  Most have zero expected instances on a correct tree ("this hazard
construct does not occur"); each keeps a positive example in the
self-validation variants."""
import ast

from .core import (ftext, AnalysisError, dotted, norm, walk_local, const_int,
                   stmts_of, calls_in, call_name, kwarg, enclosing_stmt_map,
                   block_always_raises, PKG)
from .dataflow import local_defs, names_in, closure_names, holds
from .intexpr import canon, canon_src, NotInt


def _canon(node, subst=None):
    try:
        return canon(node, subst)
    except NotInt:
        return None


# ---------------------------------------------------------------------
# file accessor hazards (C12, C18, C01)
# ---------------------------------------------------------------------
def file_accessor_hazards(repo, col):
    rule = "E-SIB.store"
    m = repo.module("file_accessor")
    ci = repo.cls("file_accessor", "FileAccessor")
    n = 0
    # 1. decompression is decided by the name, never by sniffing the content
    for node in ast.walk(m.tree):
        if isinstance(node, ast.Constant) and isinstance(node.value, bytes) \
                and node.value.startswith(b"\x1f\x8b"):
            n += 1
            col.add(rule + ".no-sniffing", "file_accessor:module",
                    "gzip magic %r" % node.value, False,
                    "whether a file is decompressed depends on its first "
                    "bytes: an uncompressed file that happens to start with "
                    "1f 8b is not returned as stored",
                    loc="%s:%d" % (m.relpath, node.lineno))
    # 2. rename/replace onto the destination bypasses exclusive create
    for mname, fn in ci.methods.items():
        for c in calls_in(fn.node):
            nm = fn.module.resolve(call_name(c) or "") or ""
            is_mv = nm in ("os.replace", "os.rename", "shutil.move") or (
                isinstance(c.func, ast.Attribute) and
                c.func.attr in ("replace", "rename") and
                "path" in norm(c.func.value).lower())
            if not is_mv:
                continue
            n += 1
            # acceptable only when the method checks the destination itself
            guarded = False
            for st in stmts_of(fn.node):
                if isinstance(st, ast.If) and "overwrite" in norm(st.test) and (
                        "exists" in norm(st.test) or "is_file" in norm(st.test)):
                    guarded = True
            col.add(rule + ".overwrite.rename", fn, norm(c)[:60], guarded,
                    "" if guarded else "the data is moved onto the destination "
                    "with a rename: renames replace an existing file, so "
                    "exclusive creation ('xb') of the temporary name no longer "
                    "protects the destination when overwriting is not "
                    "permitted", node=c)
    # 3. the layout written depends only on configuration and MIME type
    allowed = {"self", "mime_type", "NO_COMPRESS_MIME_TYPES", "overwrite"}
    for mname in ("store_file", "store_chunk"):
        fn = repo.func("file_accessor", "FileAccessor." + mname)
        tests = []

        def rec(stmts, conds):
            for st in stmts:
                if isinstance(st, ast.If):
                    rec(st.body, conds + [st.test])
                    rec(st.orelse, conds + [st.test])
                elif isinstance(st, (ast.With, ast.Try, ast.For, ast.While)):
                    for f in ("body", "orelse", "finalbody"):
                        rec(getattr(st, f, []) or [], conds)
                    for h in getattr(st, "handlers", []) or []:
                        rec(h.body, conds)
                    if isinstance(st, ast.With):
                        for it in st.items:
                            if "open" in norm(it.context_expr):
                                tests.append(list(conds))
                else:
                    if any("open(" in norm(c) for c in calls_in(st)) or \
                            "'.gz'" in norm(st):
                        tests.append(list(conds))
        rec(fn.node.body, [])
        used = set()
        for conds in tests:
            for t in conds:
                used |= names_in(t)
        extra = used - allowed
        col.add(rule + ".layout-by-config", fn, "conditions on the write path "
                "use %s" % sorted(used), not extra, "" if not extra else
                "which name a file is written under depends on %s (not only "
                "on the gzip setting and MIME type): the same name can end up "
                "as <name> one time and <name>.gz the next, and the stale "
                "sibling shadows the new one" % sorted(extra))
    # 4. existence probes that swallow OSError
    for mname, fn in ci.methods.items():
        for c in calls_in(fn.node):
            nm = fn.module.resolve(call_name(c) or "") or ""
            if nm in ("os.path.isfile", "os.path.exists", "os.path.isdir",
                      "os.path.lexists"):
                n += 1
                col.add("E-EXC.B.probe-swallows", fn, norm(c)[:60], False,
                        "%s() returns False for every OSError (EACCES, EIO), "
                        "so a failing probe is reported as 'absent' instead "
                        "of DataAccessError" % nm, node=c)
    # 5. gzip streams must be read to their end-of-stream marker
    for fn in m.functions.values():
        t = ftext(fn)
        if "decompressobj(" in t:
            n += 1
            ok = ".eof" in t
            col.add("E-EXC.B.gzip-eof", fn, "zlib.decompressobj", ok,
                    "" if ok else "decompressobj().decompress() does not fail "
                    "on a truncated stream and .eof is never checked: a "
                    "partially written .gz file is returned as if complete")
    col.add(rule + ".hazards", "file_accessor:FileAccessor",
            "%d hazard constructs examined" % n, True, "content sniffing, "
            "rename onto the destination, content-dependent layout, "
            "OSError-swallowing probes, unchecked streaming decompression",
            nontrivial=False)


def no_content_cache(repo, col):
    """fetch_file returns what is on disk / on the server now."""
    rule = "E-ATTR.no-content-cache"
    sites = [("file_accessor", "FileAccessor"),
             ("sharded_file_accessor", "ShardedFileAccessor"),
             ("http_accessor", "HttpAccessor")]
    for ms, cls in sites:
        fn = repo.func(ms, cls + ".fetch_file")
        stores = []
        for n in walk_local(fn.node):
            if isinstance(n, (ast.Assign, ast.AugAssign)):
                tg = n.targets if isinstance(n, ast.Assign) else [n.target]
                for t in tg:
                    base = t.value if isinstance(t, ast.Subscript) else t
                    if isinstance(base, ast.Attribute) and \
                            isinstance(base.value, ast.Name) and \
                            base.value.id == "self":
                        stores.append(n)
            if isinstance(n, ast.Call) and isinstance(n.func, ast.Attribute) \
                    and n.func.attr in ("setdefault", "update") and \
                    norm(n.func.value).startswith("self."):
                stores.append(n)
        ci_ = repo.cls(ms, cls)
        meths_ = set()
        for c_ in repo.mro(ci_):
            meths_ |= set(c_.methods)

        def from_map(v):
            """self._x[k] / self._x.get(k): contents kept on the object (a
            call of one of the class's own methods reads them now)."""
            if isinstance(v, ast.Subscript):
                return norm(v.value).startswith("self._")
            if isinstance(v, ast.Call) and isinstance(v.func, ast.Attribute):
                if isinstance(v.func.value, ast.Name) and \
                        v.func.value.id == "self":
                    return False            # a method of the accessor
                return norm(v.func.value).startswith("self._") and \
                    v.func.attr in ("get", "setdefault", "pop",
                                    "__getitem__") and \
                    "session" not in norm(v.func.value)
            return False
        reads_self_map = [n for n in walk_local(fn.node)
                          if isinstance(n, ast.Return) and n.value is not None
                          and from_map(n.value)]
        ok = not stores and not reads_self_map
        col.add(rule, fn, "fetch_file keeps no copy of file contents", ok,
                "" if ok else "fetch_file stores / returns file contents held "
                "on the accessor: after the file is rewritten through another "
                "spelling of its name or another accessor, the stale bytes "
                "are returned", node=(stores + reads_self_map)[0]
                if not ok else None)


# ---------------------------------------------------------------------
# sharded writer state (C04, C05, C13)
# ---------------------------------------------------------------------
def shard_lifecycle(repo, col):
    rule = "E-ORDER.flush-chain"
    m = repo.module("sharded_file_accessor")
    # who may call Shard.close / ShardedScale.close
    allowed = {"Shard.close": {"ShardedScale.close"},
               "ShardedScale.close": {"ShardedFileAccessor.close"}}
    gs = repo.func("sharded_file_accessor", "ShardedScale.get_shard")
    bad = []
    for n in walk_local(gs.node):
        if isinstance(n, ast.Call) and isinstance(n.func, ast.Attribute) and \
                n.func.attr in ("close", "pop", "popitem", "clear"):
            bad.append(n)
        if isinstance(n, ast.Delete):
            bad.append(n)
    for c in calls_in(gs.node):
        f = c.func
        if isinstance(f, ast.Attribute) and isinstance(f.value, ast.Name) and \
                f.value.id == "self" and f.attr in gs.cls.methods and \
                f.attr != "get_shard":
            h = gs.cls.methods[f.attr]
            for n in walk_local(h.node):
                if isinstance(n, ast.Call) and isinstance(n.func, ast.Attribute) \
                        and n.func.attr in ("close", "pop", "popitem"):
                    bad.append(c)
    col.add(rule + ".no-early-close", gs, "shards stay open until the scale "
            "is closed", not bad, "" if not bad else
            "get_shard closes / evicts shards while the scale is still being "
            "written: Shard.close writes the file with mode 'wb', so a shard "
            "that is revisited later is re-created and its file is rewritten "
            "with only the late chunks", node=bad[0] if bad else None)
    # payload encoded exactly once
    for qn in ("MiniShard.append", "MiniShard.flush_buffer", "MiniShard.close"):
        fn = repo.func("sharded_file_accessor", qn)
        enc = [c for c in calls_in(fn.node)
               if (call_name(c) or "").endswith("data_encoder")]
        col.add("E-ORDER.encode-before-store.once", fn,
                "no second data_encoder application", not enc,
                "" if not enc else "%s applies data_encoder again to payloads "
                "that store_cmc_chunk already encoded (chunks that waited in "
                "the reorder buffer are compressed twice)" % qn,
                node=enc[0] if enc else None)
    # who may write the minishard's bookkeeping
    owned = {"masked_bits"}
    try:
        appf = repo.func("sharded_file_accessor", "MiniShard.append")
        for n in walk_local(appf.node):
            if isinstance(n, (ast.Assign, ast.AugAssign)):
                tg = n.targets if isinstance(n, ast.Assign) else [n.target]
                for t in tg:
                    if isinstance(t, ast.Attribute) and isinstance(
                            t.value, ast.Name) and t.value.id == "self" \
                            and t.attr.startswith("_"):
                        owned.add(t.attr)
    except AnalysisError:
        pass
    writers = []
    for fn in m.functions.values():
        if fn.cls is not None and fn.cls.name == "MiniShard":
            continue
        for n in walk_local(fn.node):
            if isinstance(n, (ast.Assign, ast.AugAssign)):
                tg = n.targets if isinstance(n, ast.Assign) else [n.target]
                for t in tg:
                    if isinstance(t, ast.Attribute) and t.attr in owned:
                        writers.append((fn, n))
    col.add("E-ATTR.owner-writes", "sharded_file_accessor:MiniShard",
            "%s written only by MiniShard" % sorted(owned), not writers,
            "" if not writers else "%s assigns minishard.%s from outside "
            "MiniShard: the minishard then skips its own (correct) "
            "initialisation of the fixed routing bits / append counters"
            % (writers[0][0].qualname, norm(writers[0][1].targets[0]
                                            if isinstance(writers[0][1], ast.Assign)
                                            else writers[0][1].target)))


def module_level_caches(repo, col, shorts):
    rule = "E-ATTR.shared-mutable"
    for ms in shorts:
        m = repo.module(ms)
        for name, val in m.constants.items():
            mutable = isinstance(val, (ast.Dict, ast.List, ast.Set)) or (
                isinstance(val, ast.Call) and call_name(val) in
                ("dict", "list", "set", "collections.OrderedDict",
                 "OrderedDict") and not val.args)
            if not mutable or (isinstance(val, (ast.Dict, ast.List)) and
                               (getattr(val, "keys", None) or
                                getattr(val, "elts", None))):
                continue
            mutated = None
            for fn in m.functions.values():
                for n in walk_local(fn.node):
                    if isinstance(n, (ast.Assign, ast.AugAssign)):
                        tg = n.targets if isinstance(n, ast.Assign) else [n.target]
                        for t in tg:
                            if isinstance(t, ast.Subscript) and \
                                    norm(t.value) == name:
                                mutated = (fn, n)
                    if isinstance(n, ast.Call) and \
                            isinstance(n.func, ast.Attribute) and \
                            norm(n.func.value) == name and n.func.attr in (
                                "setdefault", "update", "append", "add",
                                "pop", "clear"):
                        mutated = (fn, n)
            col.add(rule, "%s:%s" % (m.short, name), "module-level %s = %s"
                    % (name, norm(val)), mutated is None, "" if mutated is None
                    else "module-level container %s is filled by %s: a "
                    "process-wide cache shared by every dataset, scale and "
                    "accessor" % (name, mutated[0].qualname),
                    nontrivial=False)


# ---------------------------------------------------------------------
# generic lints with zero expected instances
# ---------------------------------------------------------------------
class _Record:
    """Constructor of a namedtuple: positional parameters = its fields."""
    class _A:
        vararg = None

    class _N:
        pass

    def __init__(self, name, fields):
        self.qualname = name
        self.params = list(fields)
        self.node = self._N()
        self.node.args = self._A()


def _namedtuple_fields(v):
    if not (isinstance(v, ast.Call) and
            (call_name(v) or "").split(".")[-1] in ("namedtuple",
                                                     "NamedTuple")
            and len(v.args) >= 2):
        return None
    f = v.args[1]
    if isinstance(f, ast.Constant) and isinstance(f.value, str):
        return f.value.replace(",", " ").split()
    if isinstance(f, (ast.Tuple, ast.List)):
        out = []
        for e in f.elts:
            if isinstance(e, ast.Constant) and isinstance(e.value, str):
                out.append(e.value)
            elif isinstance(e, (ast.Tuple, ast.List)) and e.elts and \
                    isinstance(e.elts[0], ast.Constant):
                out.append(e.elts[0].value)
            else:
                return None
        return out
    return None


def swapped_arguments(repo, col, shorts=None):
    """A positional argument whose name is that of a *different* parameter of
    the callee (and not of its own position).  `shorts` restricts the calling
    modules (the property's anchor files)."""
    rule = "E-AXIS.arg-name"
    n = 0
    by_name = {}
    for m in repo.modules.values():
        for f in m.functions.values():
            by_name.setdefault(f.qualname.split(".")[-1], []).append(f)
        for c in m.classes.values():
            if "__init__" in c.methods:
                by_name.setdefault(c.name, []).append(c.methods["__init__"])
            elif "__new__" in c.methods:
                by_name.setdefault(c.name, []).append(c.methods["__new__"])
            else:
                # class X(namedtuple("X", fields)): the fields are the
                # constructor's parameters
                for b in c.node.bases:
                    fl = _namedtuple_fields(b)
                    if fl:
                        by_name.setdefault(c.name, []).append(
                            _Record(c.name, fl))
        for cname, cval in m.constants.items():
            fl = _namedtuple_fields(cval)
            if fl:
                by_name.setdefault(cname, []).append(_Record(cname, fl))

    def argname(a):
        if isinstance(a, ast.Name):
            return a.id
        if isinstance(a, ast.Subscript) and isinstance(a.slice, ast.Constant) \
                and isinstance(a.slice.value, str):
            return a.slice.value
        if isinstance(a, ast.Call) and isinstance(a.func, ast.Attribute) and \
                a.func.attr == "get" and a.args and \
                isinstance(a.args[0], ast.Constant):
            return a.args[0].value
        if isinstance(a, ast.Attribute):
            return a.attr
        return None
    for m in repo.modules.values():
        if shorts is not None and m.short not in shorts:
            continue
        repo.consulted.add(m.name)
        for fn in m.functions.values():
            for c in calls_in(fn.node):
                nm = (call_name(c) or "").split(".")[-1]
                if nm == "cls" and fn.cls is not None:
                    nm = fn.cls.name
                if nm.startswith("__") and nm.endswith("__"):
                    continue      # explicit dunder calls: receiver-specific
                cands = by_name.get(nm, [])
                if not cands or len(c.args) < 2:
                    continue

                def plist(f_):
                    ps = list(f_.params)
                    if ps and ps[0] in ("self", "cls"):
                        ps = ps[1:]
                    return ps
                # several definitions of one name (an interface and its
                # implementations) count when they agree on the positions
                k_ = len(c.args)
                # candidates that can take this many positional arguments
                fit = [f_ for f_ in cands if len(plist(f_)) >= k_
                       or f_.node.args.vararg is not None]
                if not fit:
                    continue
                heads = {tuple(plist(f_)[:k_]) for f_ in fit}
                if len(heads) != 1:
                    continue
                head = next(iter(heads))
                callee = [f_ for f_ in fit
                          if tuple(plist(f_)[:k_]) == head][0]
                params = plist(callee)
                for i, a in enumerate(c.args):
                    if i >= len(params) or isinstance(a, ast.Starred):
                        break
                    an = argname(a)
                    if an and an != params[i] and an in params:
                        n += 1
                        col.add(rule, fn, norm(c)[:80], False,
                                "argument `%s` is passed in the position of "
                                "parameter `%s` of %s, which has another "
                                "parameter named `%s`: arguments swapped"
                                % (an, params[i], callee.qualname, an), node=c)
    col.add(rule, "package", "%d swapped-argument candidates" % n, True,
            "positional arguments named after another parameter of the "
            "callee", nontrivial=False)
    return n


def strip_charset_misuse(repo, col):
    rule = "E-BOUND.strip-charset"
    n = 0
    for m in repo.modules.values():
        for fn in m.functions.values():
            for c in calls_in(fn.node):
                f = c.func
                if isinstance(f, ast.Attribute) and f.attr in (
                        "rstrip", "lstrip", "strip") and len(c.args) == 1 and \
                        isinstance(c.args[0], ast.Constant) and \
                        isinstance(c.args[0].value, str):
                    s = c.args[0].value
                    if len(set(s)) > 2 and not s.isspace():
                        n += 1
                        repo.consulted.add(m.name)
                        col.add(rule, fn, norm(c)[:70], False,
                                "%s(%r) removes any run of those characters, "
                                "not the suffix/prefix %r: trailing letters of "
                                "ordinary names are eaten" % (f.attr, s, s),
                                node=c)
    col.add(rule, "package", "%d multi-character strip() calls" % n, True,
            "str.strip family takes a character set", nontrivial=False)


def loop_error_discipline(repo, col):
    """The conversion loops let read / write errors propagate: a handler that
    does not re-raise, or control flow inside `finally`, turns a failed chunk
    into a silently incomplete dataset with exit status 0."""
    rule = "E-EXIT.loop"
    sites = [("volume_reader", "volume_to_precomputed"),
             ("volume_reader", "nibabel_image_to_precomputed"),
             ("scripts.convert_chunks", "convert_chunks_for_scale"),
             ("scripts.convert_chunks", "convert_chunks"),
             ("dyadic_pyramid", "compute_dyadic_scales"),
             ("dyadic_pyramid", "compute_dyadic_downscaling"),
             ("scripts.slices_to_precomputed", "slices_to_raw_chunks"),
             ("scripts.compute_scales", "compute_scales"),
             ("scripts.link_mesh_fragments", "make_mesh_fragment_links")]
    for ms, qn in sites:
        fn = repo.func(ms, qn)
        bad = None
        why = ""
        for st in stmts_of(fn.node):
            if isinstance(st, ast.Try):
                for h in st.handlers:
                    if not block_always_raises(h.body) and not (
                            h.body and isinstance(h.body[-1], ast.Return)
                            and (const_int(h.body[-1].value) or 0) != 0):
                        bad, why = h, "an `except %s` handler does not " \
                            "re-raise" % norm(h.type)
                for s in st.finalbody:
                    for x in ast.walk(s):
                        if isinstance(x, (ast.Continue, ast.Break, ast.Return)):
                            bad, why = x, "`%s` inside `finally` discards the " \
                                "exception in flight" % type(x).__name__.lower()
        col.add(rule, fn, "errors of chunk I/O propagate", bad is None,
                "" if bad is None else "%s: %s, so a failed chunk leaves an "
                "incomplete dataset while the command can still exit 0"
                % (fn.qualname, why), node=bad)
    # work handed to an executor: exceptions surface only through .result()
    for m in repo.modules.values():
        for f in m.functions.values():
            subs = [c for c in calls_in(f.node) if isinstance(c.func, ast.Attribute)
                    and c.func.attr in ("submit", "apply_async", "map_async")]
            if not subs:
                continue
            repo.consulted.add(m.name)
            t = ftext(f)
            ok = ".result(" in t or ".get(" in t and "apply_async" in t
            col.add(rule + ".executor", f, norm(subs[0])[:60], ok, "" if ok
                    else "tasks are submitted to an executor but their "
                    "results are never retrieved: an exception raised in a "
                    "worker (a failed chunk write) is silently dropped",
                    node=subs[0])
    # a driver whose callee returns a status must pass it on
    npc = repo.func("volume_reader", "nibabel_image_to_precomputed")
    v2p = repo.func("volume_reader", "volume_to_precomputed")
    v2p_returns = any(isinstance(s, ast.Return) and s.value is not None
                      for s in stmts_of(v2p.node))
    if v2p_returns:
        passes = any(isinstance(s, ast.Return) and s.value is not None and
                     "volume_to_precomputed(" in norm(s.value)
                     for s in stmts_of(npc.node))
        col.add(rule, npc, "status of volume_to_precomputed passed on", passes,
                "" if passes else "volume_to_precomputed returns a status that "
                "its caller drops")
    # every CSV row of the link table leads to a store
    fl = repo.func("scripts.link_mesh_fragments", "make_mesh_fragment_links")
    loops = [s for s in stmts_of(fl.node) if isinstance(s, ast.For)
             and "csv" in norm(s.iter)]
    if loops:
        loop = loops[0]
        skips = [x for s in loop.body for x in ast.walk(s)
                 if isinstance(x, (ast.Continue, ast.Break))
                 and not any(isinstance(p, ast.For) and p is not loop and
                             x in list(ast.walk(p)) for p in ast.walk(loop)
                             if isinstance(p, ast.For) and p is not loop)]
        from .core import resolve_local_call, helper_closure

        def _stores(c):
            if isinstance(c.func, ast.Attribute) and \
                    c.func.attr == "store_file":
                return True
            h = resolve_local_call(fl, c)
            if h is None and isinstance(c.func, ast.Attribute):
                # a method of an object of the package: the only class that
                # has a method of that name
                owners = [cc.methods[c.func.attr]
                          for cc in repo.all_classes()
                          if c.func.attr in cc.methods]
                if len(owners) == 1:
                    h = owners[0]
            return h is not None and any(
                isinstance(x.func, ast.Attribute) and
                x.func.attr == "store_file"
                for g in helper_closure(h) for x in calls_in(g.node))
        stores = [c for c in calls_in(loop) if _stores(c)]
        ok = bool(stores) and not skips
        # positively wrong: a row can be skipped; a store that is not
        # recognised (done by an object this rule cannot name) is undecided
        col.add(rule, fl, "every row of the table is written",
                ok or not skips, "" if ok
                else "a row of the link table can be skipped (continue/break) "
                "before its link file is stored, while the command reports "
                "success" if skips else "the call that stores a row's link "
                "file was not recognised", undecided=not ok and not skips)


# ---------------------------------------------------------------------
# specification details
# ---------------------------------------------------------------------
def _strip_reorder(repo, fn, e, depth=0):
    """e without the wrappers that only re-order or re-type a sequence
    (tuple(), list(), reversed(), [::-1]); `self.<property>` is replaced by
    what a one-return property gives."""
    while True:
        if isinstance(e, ast.Call) and call_name(e) in (
                "tuple", "list", "reversed") and len(e.args) == 1 and \
                not e.keywords:
            e = e.args[0]
            continue
        if isinstance(e, ast.Subscript) and isinstance(e.slice, ast.Slice) \
                and e.slice.lower is None and e.slice.upper is None and \
                e.slice.step is not None and norm(e.slice.step) == "-1":
            e = e.value
            continue
        break
    if depth < 3 and isinstance(e, ast.Attribute) and \
            isinstance(e.value, ast.Name) and e.value.id == "self" and \
            fn.cls is not None:
        for cc in repo.mro(fn.cls):
            meth = cc.methods.get(e.attr)
            if meth is None:
                continue
            if any("property" in norm(d) for d in meth.node.decorator_list):
                rets = [x for x in walk_local(meth.node)
                        if isinstance(x, ast.Return) and x.value is not None]
                if len(rets) == 1:
                    return _strip_reorder(repo, meth, rets[0].value,
                                          depth + 1)
            break
    return e


def declared_block_size(repo, col):
    rule = "E-SPEC.cseg.declared-block"
    for qn, callee, argi in (("CompressedSegmentationEncoder.encode",
                              "encode_chunk", 1),
                             ("CompressedSegmentationEncoder.decode",
                              "decode_chunk_into", 2)):
        fn = repo.func("chunk_encoding", qn)
        calls = [c for c in calls_in(fn.node)
                 if (call_name(c) or "").endswith(callee)]
        if not calls or len(calls[0].args) <= argi:
            col.add(rule, fn, callee, True, "codec call not found",
                    undecided=True)
            continue
        a = norm(calls[0].args[argi])
        ok = norm(_strip_reorder(repo, fn, calls[0].args[argi])) == \
            "self.block_size"
        col.add(rule, fn, "%s(..., %s)" % (callee, a), ok, "" if ok else
                "the codec is given `%s`, not the block size declared in the "
                "info: the file is laid out for a block size a specification "
                "reader does not use" % a, node=calls[0])
    ini = repo.func("chunk_encoding", "CompressedSegmentationEncoder.__init__")
    ok = "self.block_size = block_size" in ftext(ini)
    col.add(rule, ini, "self.block_size = declared block size", ok,
            "" if ok else "declared block size is altered when stored",
            undecided=not ok)
    # nothing but (chunk, channel, bytes, block size) crosses channels
    m = repo.module("_compressed_segmentation")
    for outer, inner, nargs in (("encode_chunk", "_encode_channel", 2),
                                ("decode_chunk_into", "_decode_channel_into", 4)):
        fn = repo.func("_compressed_segmentation", outer)
        defs = local_defs(fn.node)
        calls = [c for c in calls_in(fn.node) if call_name(c) == inner]
        for c in calls:
            extras = list(c.args[nargs:]) + [k.value for k in c.keywords]
            bad = None
            for e in extras:
                if isinstance(e, ast.Name):
                    for d in defs.get(e.id, []):
                        if isinstance(d.value, (ast.Dict, ast.List, ast.Set)) or (
                                isinstance(d.value, ast.Call) and
                                call_name(d.value) in ("dict", "list", "set")):
                            bad = e
            col.add(rule.replace("declared-block", "channel-state"), fn,
                    norm(c)[:70], bad is None, "" if bad is None else
                    "container `%s` created outside the channel loop is handed "
                    "to every channel: offsets are relative to one channel's "
                    "data, so state keyed by them must not cross channels"
                    % norm(bad), node=c, undecided=bool(extras) and bad is None)


def shard_name_format_spec(repo, col):
    """Alternative spelling of the shard file name: format(n, '0<W>x')."""
    rule = "E-SPEC.sharded.file-name"
    sc = repo.func("sharded_base", "ShardCMC.__init__")
    defs = local_defs(sc.node)
    subst = {}
    for nm_, ds_ in defs.items():
        vs_ = [d.value for d in ds_ if d.value is not None
               and d.kind == "assign" and d.index is None]
        if len(vs_) == 1:
            subst[nm_] = vs_[0]
    for c in calls_in(sc.node):
        if call_name(c) == "format" and len(c.args) == 2 and \
                isinstance(c.args[1], ast.JoinedStr):
            parts = c.args[1].values
            if len(parts) == 3 and isinstance(parts[0], ast.Constant) and \
                    parts[0].value == "0" and isinstance(parts[2], ast.Constant) \
                    and parts[2].value in ("x",) and \
                    isinstance(parts[1], ast.FormattedValue):
                w = _canon(parts[1].value, subst)
                ok = w == "CEILDIV(self.shard_spec.shard_bits, 4)"
                col.add(rule, sc, "format(..., '0{%s}x')" % norm(parts[1].value),
                        ok, "" if ok else "shard file names are padded to %s "
                        "hex digits, the format prescribes ceil(shard_bits / "
                        "4)" % w, node=c)


def cosines_vectorised(repo, col):
    rule = "E-SPEC.transform.cosines"
    vr = repo.func("volume_reader", "nibabel_image_to_info")
    for st in stmts_of(vr.node):
        if isinstance(st, ast.Assign) and "transform[" in norm(st.targets[0]) \
                and isinstance(st.value, ast.BinOp) and \
                isinstance(st.value.op, ast.Div) and \
                "voxel_sizes" in norm(st.value.right) and \
                "affine[" in norm(st.value.left):
            r = norm(st.value.right)
            l = norm(st.value.left)
            if l.startswith("affine[:, ") and const_int(
                    st.value.left.slice.elts[1]) is not None:
                continue        # per-column form, checked elsewhere
            rowwise = "np.newaxis]" in r and r.rstrip("]").endswith("np.newaxis") \
                and ", np.newaxis" in r
            ok = not rowwise
            col.add(rule, vr, norm(st)[:80], ok, "columns are divided by "
                    "their voxel size" if ok else
                    "`%s` broadcasts the voxel sizes down the rows: row k is "
                    "divided by voxel size k, but it is column k (input axis "
                    "k) that carries voxel size k" % r, node=st)
    tr = repo.func("transform", "nifti_to_neuroglancer_transform")
    t = ftext(tr)
    param = tr.params[0]
    aliasing = [d for d in local_defs(tr.node).get("ret", [])
                if d.value is not None and isinstance(d.value, ast.Call) and
                (call_name(d.value) or "").endswith(("asarray", "asanyarray"))
                and param in names_in(d.value)]
    inplace = any(isinstance(s, ast.AugAssign) and norm(s.target).startswith("ret")
                  for s in stmts_of(tr.node))
    ok = not (aliasing and inplace)
    col.add(rule.replace("cosines", "no-alias"), tr, "caller's matrix is not "
            "modified", ok, "" if ok else "the result aliases the caller's "
            "matrix (np.asarray) and is then modified in place: every call "
            "shifts the loaded image's own affine by another half voxel")
    cj = repo.func("transform", "matrix_as_compact_urlsafe_json")
    lossy = []
    tmod = repo.module("transform")
    helper_calls = [c for f in tmod.functions.values()
                    if f is not repo.func("transform",
                                          "nifti_to_neuroglancer_transform")
                    for c in calls_in(f.node)]
    for c in helper_calls:
        if call_name(c) == "format" and len(c.args) == 2 and \
                isinstance(c.args[1], ast.Constant) and \
                isinstance(c.args[1].value, str) and \
                c.args[1].value.lstrip(".0123456789").rstrip() in ("g", "e", "f") \
                and not c.args[1].value.startswith(".17"):
            lossy.append(c)
        if call_name(c) == "round":
            lossy.append(c)
    for n in walk_local(cj.node):
        if isinstance(n, ast.JoinedStr):
            for v in n.values:
                if isinstance(v, ast.FormattedValue) and v.format_spec is not None:
                    spec = norm(v.format_spec)
                    if any(x in spec for x in ("g", "e", "f")) and ".17" not in spec:
                        lossy.append(n)
    col.add(rule.replace("cosines", "compact-lossless"), cj,
            "numbers are written with full precision", not lossy,
            "" if not lossy else "matrix entries are formatted with a "
            "limited number of digits (%s): the compact form no longer parses "
            "back to the same matrix" % norm(lossy[0])[:40])


def mesh_unit_unconditional(repo, col):
    rule = "E-SPEC.mesh-script"
    fn = repo.func("scripts.mesh_to_precomputed", "mesh_file_to_precomputed")
    top = None
    nested = None

    def rec(stmts, depth):
        nonlocal top, nested
        for st in stmts:
            if isinstance(st, ast.Assign) and norm(st.targets[0]) == "points" \
                    and isinstance(st.value, ast.BinOp) and \
                    isinstance(st.value.op, ast.Mult) and any(
                        isinstance(x, ast.Constant) and x.value in (1e6, 1000000)
                        for x in (st.value.left, st.value.right)):
                if depth == 0:
                    top = st
                else:
                    nested = st
            if isinstance(st, ast.If):
                rec(st.body, depth + 1)
                rec(st.orelse, depth + 1)
    rec(fn.node.body, 0)
    ok = top is not None and nested is None
    col.add(rule, fn, "points = 1e6 * points applies to every mesh", ok,
            "" if ok else "the mm -> nm scaling of the vertices is conditional "
            "(only without --coord-transform): with a transform the "
            "translation stays in millimetres",
            undecided=top is None and nested is None)


def stats_accumulation_nesting(repo, col):
    from .rules_tile import stats_model
    from .core import resolve_local_call
    rule = "E-TILE.stats"
    top, fn, comp = stats_model(repo)
    inner = None
    if fn is not None:
        for st in stmts_of(fn.node):
            if isinstance(st, ast.For) and "chunk_sizes" in norm(st.iter):
                inner = st
    if inner is None:
        col.add(rule, top, "per-chunk-size loop", True, "loop over chunk_sizes "
                "not found", undecided=True)
        return
    tdefs = local_defs(top.node)
    # accumulators: names initialised to 0 and increased with +=
    allaug = {s.target.id for s in stmts_of(top.node)
              if isinstance(s, ast.AugAssign) and isinstance(s.target, ast.Name)
              and isinstance(s.op, ast.Add) and any(
                  isinstance(d.value, ast.Constant) and d.value.value == 0
                  for d in tdefs.get(s.target.id, []))}
    if fn is top:
        inside = {norm(s.target) for s in ast.walk(inner)
                  if isinstance(s, ast.AugAssign)}
    else:
        # figures are produced by a helper: once per chunk size iff the helper
        # yields inside its chunk-size loop and the caller accumulates inside
        # the loop over the helper's results
        yields_inside = any(isinstance(n, (ast.Yield, ast.YieldFrom))
                            for n in ast.walk(inner))
        yields = [n for n in walk_local(fn.node)
                  if isinstance(n, (ast.Yield, ast.YieldFrom))]
        if not yields:
            col.add(rule, top, "per-chunk-size loop", True, "figures come "
                    "from a helper that is not a generator", undecided=True)
            return
        inside = set()
        for st in stmts_of(top.node):
            if isinstance(st, ast.For) and isinstance(st.iter, ast.Call) and \
                    resolve_local_call(top, st.iter) is fn and yields_inside:
                inside |= {norm(s.target) for s in ast.walk(st)
                           if isinstance(s, ast.AugAssign)}
    want = set(allaug)
    if not want:
        col.add(rule, top, "totals accumulate once per chunk size (as the "
                "chunks are written)", True, "no accumulators recognised",
                undecided=True)
        return
    ok = want <= inside
    col.add(rule, top, "totals accumulate once per chunk size (as the chunks "
            "are written)", ok, "" if ok else "%s accumulated outside the "
            "loop over chunk sizes: totals no longer match the per-line "
            "figures for scales with several chunk sizes"
            % sorted((want & allaug) - inside or want - inside))


def axis_arg_family(repo, col, shorts):
    """Scalar arguments of one call to a same-module helper come from one
    index space (X/Y/Z or column/row/slice), not a mixture."""
    from .rules_axis import AxisChecker
    rule = "E-AXIS.arg-family"
    n = 0
    for ms in shorts:
        m = repo.module(ms)
        for fn in m.functions.values():
            ck = AxisChecker(fn, col, rule="E-AXIS-silent")
            for c in calls_in(fn.node):
                nm = call_name(c) or ""
                if "." in nm or nm not in m.functions and not any(
                        q.endswith("." + nm) for q in m.functions):
                    continue
                roles = [ck.role(a, quiet=True) for a in c.args]
                typed = [r for r in roles if r]
                fam = {("crs" if r in ("COL", "ROW", "SLC") else "xyz")
                       for r in typed if r != "C"}
                if len(typed) >= 2:
                    n += 1
                    ok = len(fam) <= 1
                    col.add(rule, fn, norm(c)[:80], ok, "" if ok else
                            "one call mixes input-slice axes and volume axes "
                            "(%s): a per-axis quantity of the input ordering "
                            "is combined with one of the output ordering"
                            % "/".join(typed), node=c)
    return n


def shard_protocol_guards(repo, col):
    """Guards of the minishard append protocol, the reader's id match and the
    exact length of the shard index."""
    from .dataflow import raise_guards
    rule = "E-BOUND.shard-protocol"
    # 1. a chunk below the next expected id is refused; only the expected id
    #    is appended
    cba = repo.func("sharded_file_accessor", "MiniShard.can_be_appended", inline=True)
    from .dataflow import single_defs, expand
    ctab = single_defs(cba.node)
    late = False
    for g, atoms in raise_guards(cba.node):
        for a in atoms:
            l, r = norm(expand(a.left, ctab)), norm(expand(a.right, ctab))
            if {l, r} == {"self.next_cmc", cba.params[-1]}:
                # fall-through must allow next == cmc and forbid next > cmc
                if (l == "self.next_cmc" and a.op == "<=") or \
                        (r == "self.next_cmc" and a.op == ">="):
                    late = True
    col.add(rule, cba, "ids below the next expected id raise", late,
            "" if late else "a chunk whose id is below the next expected id "
            "of its minishard is not refused at store time (ids in a "
            "minishard index must be strictly increasing)")
    cmcp = cba.params[-1]
    eq_forms = ("self.next_cmc == %s" % cmcp, "%s == self.next_cmc" % cmcp)

    def enclosing_tests(target):
        found = []

        def visit(stmts, ctx):
            for st in stmts:
                if st is target:
                    found.append(list(ctx))
                    return True
                if isinstance(st, ast.If):
                    if visit(st.body, ctx + [(st.test, True)]) or \
                            visit(st.orelse, ctx + [(st.test, False)]):
                        return True
                else:
                    for field in ("body", "orelse", "finalbody"):
                        sub = getattr(st, field, None)
                        if isinstance(sub, list) and sub and \
                                isinstance(sub[0], ast.stmt) and \
                                visit(sub, ctx):
                            return True
            return False
        visit(cba.node.body, [])
        return found[0] if found else []

    ret_stmts = [s for s in stmts_of(cba.node) if isinstance(s, ast.Return)
                 and s.value is not None]
    rets = [norm(expand(s.value, ctab)) for s in ret_stmts]
    ok, und, bad = bool(ret_stmts), False, None
    for st_, txt in zip(ret_stmts, rets):
        v = expand(st_.value, ctab)
        if txt in eq_forms:
            continue
        if isinstance(v, ast.Constant) and v.value is False:
            continue
        if isinstance(v, ast.Constant) and v.value is True:
            ctx = enclosing_tests(st_)
            if ctx and ctx[-1][1] is True and \
                    norm(expand(ctx[-1][0], ctab)) in eq_forms:
                continue
            ok, bad = False, "True under `%s`" % (" and ".join(
                ("" if t else "not ") + norm(x) for x, t in ctx) or "no test")
            continue
        ok, und = False, True
    col.add(rule, cba, "appendable iff id == next expected id", ok or
            (und and bad is None),
            "" if ok else "can_be_appended returns %s: a chunk that is not "
            "the next expected one of its minishard is appended out of place"
            % (bad or rets), undecided=und and bad is None and not ok)
    # 2. reader: the walked id must equal the requested id before any read
    rd = repo.func("sharded_base", "ReadableMiniShardCMC.fetch_cmc_chunk")
    cfg = rd.cfg()
    owner = enclosing_stmt_map(rd.node)
    reads = [c for c in calls_in(rd.node) if isinstance(c.func, ast.Attribute)
             and c.func.attr == "read_bytes"]
    cmc = rd.params[-1]
    eq_guards = []
    for g, atoms in raise_guards(rd.node):
        for a in atoms:
            if a.op == "==" and cmc in (norm(a.left), norm(a.right)):
                eq_guards.append(cfg.node_of(g))
    # the guard may sit in a local helper that receives the requested id
    from .core import resolve_local_call
    for c in calls_in(rd.node):
        h = resolve_local_call(rd, c)
        if h is None or h is rd:
            continue
        hp = [p for p in h.params if p not in ("self", "cls")]
        for i, a_ in enumerate(c.args):
            if isinstance(a_, ast.Name) and a_.id == cmc and i < len(hp):
                hcfg = h.cfg()
                hg = []
                for g, atoms in raise_guards(h.node):
                    if any(a.op == "==" and hp[i] in (norm(a.left),
                                                      norm(a.right))
                           for a in atoms):
                        hg.append(hcfg.node_of(g))
                if hg and hcfg.every_path_passes(hcfg.entry, hcfg.exit, hg):
                    n_ = cfg.node_of(owner.get(id(c)))
                    if n_ is not None:
                        eq_guards.append(n_)
    ok = bool(reads) and bool(eq_guards) and all(
        cfg.every_path_passes(cfg.entry, cfg.node_of(owner.get(id(c))),
                              eq_guards) for c in reads)
    col.add(rule, rd, "id found in the index equals the requested id before "
            "any byte is read", ok, "" if ok else
            "the reader does not refuse an id that is absent from the "
            "minishard index: a never-stored chunk is answered with a "
            "neighbour's bytes")
    from .dataflow import holds as _holds
    walk = [s for s in stmts_of(rd.node) if isinstance(s, ast.While)
            and cmc in names_in(s.test)]
    okw, wdesc = False, "-"
    if walk:
        wdesc = norm(walk[0].test)
        for a in _holds(walk[0].test, True):
            for b in (a, a.flipped()):
                # <running sum> < <requested id>
                if norm(b.right) == cmc and b.op == "<" and \
                        isinstance(b.left, ast.Name) and any(
                            isinstance(x, ast.AugAssign) and
                            norm(x.target) == b.left.id
                            for x in ast.walk(walk[0])):
                    okw = True
    col.add(rule, rd, "walk while cumulative id < requested id", okw,
            "" if okw else "index walk condition is `%s`" % wdesc,
            undecided=not walk)
    ini = repo.func("sharded_base", "ReadableMiniShardCMC.__init__")
    ok3 = False
    from .scope import reach as _reach
    own_parse = any((call_name(c) or "").endswith("frombuffer")
                    for c in calls_in(ini.node))
    for h in _reach(repo, ini, depth=2):
        if h.cls is not None and h.cls is not ini.cls and \
                h.qualname.split(".")[-1] != "__init__":
            continue
        for g, atoms in raise_guards(h.node):
            for a in atoms:
                if "% 3" in norm(a.left) and a.op == "==" and \
                        norm(a.right) == "0":
                    ok3 = True
    col.add(rule, ini, "index length must be a multiple of 3",
            ok3 or not own_parse,
            "" if ok3 else "a minishard index whose length is not a multiple "
            "of three words is not refused", undecided=not ok3 and
            not own_parse)
    # 3. the shard index written at offset 0 has exactly the placeholder's
    #    length: too many entries raise, too few are padded with a strict <
    cl = repo.func("sharded_file_accessor", "Shard.close", inline=True)
    ptab = single_defs(cl.node)
    cdefs = local_defs(cl.node)
    # self.header_byte_length is that bound under a name, when the class
    # hierarchy sets it to 2**minishard_bits * 16
    hbl = False
    for c_ in repo.mro(repo.cls("sharded_file_accessor", "Shard")):
        for mf_ in c_.methods.values():
            for x_ in ast.walk(mf_.node):
                if isinstance(x_, ast.Assign) and any(
                        norm(t_) == "self.header_byte_length"
                        for t_ in x_.targets):
                    tv_ = norm(x_.value)
                    hbl = "minishard_bits" in tv_ and "16" in tv_

    from .core import expand_properties

    def _is_index_size(txt):
        if ("minishard_bits" in txt and "16" in txt) or \
                (hbl and "self.header_byte_length" in txt):
            return True
        try:
            e = ast.parse(txt, mode="eval").body
        except SyntaxError:
            return False
        t2 = norm(expand_properties(repo, cl.module, e))
        return t2 != txt and "minishard_bits" in t2 and "16" in t2

    def _oriented(test):
        """(length name, op, bound expr) with the 2**minishard_bits*16 bound
        on the right, or None."""
        if not (isinstance(test, ast.Compare) and len(test.ops) == 1):
            return None
        for a in _holds(test, True):
            for b in (a, a.flipped()):
                rb = norm(expand(b.right, ptab))
                if _is_index_size(rb) and isinstance(b.left, ast.Name):
                    return b.left.id, b.op, rb
        return None

    def _is_length(name):
        vs = [d.value for d in cdefs.get(name, []) if d.value is not None]
        return bool(vs) and all(any(isinstance(x, ast.Call) and
                                    call_name(x) == "len"
                                    for x in walk_local(v)) for v in vs)
    pads = [s for s in stmts_of(cl.node) if isinstance(s, ast.While)
            and _oriented(s.test) is not None]
    if not pads:
        col.add(rule, cl, "index padded to its full length", True,
                "padding loop not in the recognised form", undecided=True)
    else:
        lname, op, _ = _oriented(pads[0].test)
        t = pads[0].test
        ok = op == "<" and _is_length(lname)
        col.add(rule, cl, "while %s" % norm(t), ok, "" if ok else
                "padding continues while `%s`: one entry too many makes the "
                "index longer than its placeholder and the first bytes of "
                "chunk data are overwritten" % norm(t),
                undecided=not ok and not _is_length(lname))
        upd = any(isinstance(s, ast.Assign) and norm(s.targets[0]) == lname
                  and isinstance(s.value, ast.Call)
                  and call_name(s.value) == "len"
                  for s in ast.walk(pads[0]))
        col.add(rule, cl, "length re-measured in the padding loop", upd,
                "" if upd else "padding loop does not re-measure the index",
                undecided=not upd)
    too_many = False
    for g, atoms in raise_guards(cl.node):
        for a in atoms:
            for b in (a, a.flipped()):
                lb = expand(b.left, ptab)
                if (isinstance(b.left, ast.Name) and _is_length(b.left.id)
                        or any(isinstance(x, ast.Call) and
                               call_name(x) == "len"
                               for x in walk_local(lb))) and \
                        b.op in ("<", "<=") and \
                        (_is_index_size(norm(expand(b.right, ptab))) or
                         "minishard_bits" in norm(expand(b.right, ptab))):
                    too_many = True
    from .core import helper_closure
    opaque = [h for h in helper_closure(getattr(cl, "inlined_from", cl))
              if h.key != cl.key and "sh_idx" in ftext(h)]
    if not too_many:
        # the index may be assembled by a function of another module that is
        # handed the index size: the guard is looked for there, with the
        # parameter that receives the size as the bound
        from .rules_more4 import resolve_pkg_call
        for c in calls_in(cl.node):
            h = resolve_pkg_call(cl, c)
            if h is None or h.key == cl.key:
                continue
            hp = [p_ for p_ in h.params if p_ not in ("self", "cls")]
            bind = dict(zip(hp, c.args))
            bind.update({k.arg: k.value for k in c.keywords if k.arg})
            sized = {p_ for p_, a_ in bind.items()
                     if _is_index_size(norm(expand(a_, ptab)))}
            if not sized:
                continue
            opaque.append(h)
            hdefs = local_defs(h.node)
            for g, atoms in raise_guards(h.node):
                for a in atoms:
                    for b in (a, a.flipped()):
                        if b.op in ("<", "<=") and norm(b.right) in sized \
                                and isinstance(b.left, ast.Name) and any(
                                    d.value is not None and any(
                                        isinstance(x, ast.Call) and
                                        call_name(x) == "len"
                                        for x in walk_local(d.value))
                                    for d in hdefs.get(b.left.id, [])):
                            too_many = True
    col.add(rule, cl, "more entries than minishards raise", too_many,
            "" if too_many else "an index longer than 2**minishard_bits "
            "entries is written over the start of the chunk data",
            undecided=not too_many and bool(opaque))
