"""Known finding K4 (C04): the "gzip" encodings of the sharded writer are zlib
streams.  Run with  PYTHONPATH=/repo/src /venv/bin/python demo_gzip_framing.py
A reader implemented from the sharded-format specification decodes "gzip" with
a gzip decoder and cannot read what the package writes."""
import gzip
import sys

from neuroglancer_scripts.sharded_base import ShardSpec

spec = ShardSpec(1, 1, "identity", "gzip", "gzip", 0)
bad = 0
for name in ("data_encoder", "index_encoder"):
    blob = getattr(spec, name)(b"voxels" * 20)
    try:
        ok = gzip.decompress(blob) == b"voxels" * 20
    except Exception as exc:
        print("%s: header %s, gzip reader: %s: %s"
              % (name, blob[:2].hex(), type(exc).__name__, exc))
        ok = False
    bad += not ok
print("FAIL" if bad else "PASS")
sys.exit(1 if bad else 0)
