"""Demonstration for D10 (C06): incompatible chunk sizes between two scales must
raise instead of silently writing replicated rows."""
import numpy as np, shutil, tempfile
from neuroglancer_scripts import precomputed_io, downscaling, dyadic_pyramid
from neuroglancer_scripts.file_accessor import FileAccessor

def run(chunks0, chunks1, size0=(16, 8, 8)):
    d = tempfile.mkdtemp(prefix="ngs-demo.")
    try:
        size1 = [(size0[0] + 1) // 2, (size0[1] + 1) // 2, size0[2]]
        info = {"type": "image", "data_type": "uint8", "num_channels": 1, "scales": [
            {"key": "a", "size": list(size0), "resolution": [1, 1, 2], "voxel_offset": [0, 0, 0],
             "encoding": "raw", "chunk_sizes": [chunks0]},
            {"key": "b", "size": size1, "resolution": [2, 2, 2], "voxel_offset": [0, 0, 0],
             "encoding": "raw", "chunk_sizes": [chunks1]}]}
        io = precomputed_io.get_IO_for_new_dataset(info, FileAccessor(d))
        rng = np.random.default_rng(0)
        full = rng.integers(0, 255, size=(1, size0[2], size0[1], size0[0]), dtype=np.uint8)
        cs = chunks0
        for x in range(0, size0[0], cs[0]):
            for y in range(0, size0[1], cs[1]):
                for z in range(0, size0[2], cs[2]):
                    c = (x, min(x+cs[0], size0[0]), y, min(y+cs[1], size0[1]), z, min(z+cs[2], size0[2]))
                    io.write_chunk(full[:, c[4]:c[5], c[2]:c[3], c[0]:c[1]], "a", c)
        ds = downscaling.StridingDownscaler()
        dyadic_pyramid.compute_dyadic_downscaling(info, 0, ds, io, io)
        expect = ds.downscale(full, [2, 2, 1])
        cs = chunks1
        ok = True
        for x in range(0, size1[0], cs[0]):
            for y in range(0, size1[1], cs[1]):
                for z in range(0, size1[2], cs[2]):
                    c = (x, min(x+cs[0], size1[0]), y, min(y+cs[1], size1[1]), z, min(z+cs[2], size1[2]))
                    ok &= np.array_equal(io.read_chunk("b", c), expect[:, c[4]:c[5], c[2]:c[3], c[0]:c[1]])
        return "equal" if ok else "WRONG DATA"
    except ValueError as e:
        return "ValueError: %s" % e
    finally:
        shutil.rmtree(d)

print("compatible   [8,4,4]->[8,4,4]:", run([8, 4, 4], [8, 4, 4]))
print("compatible   [8,4,4]->[4,2,4]:", run([8, 4, 4], [4, 2, 4]))
print("incompatible [8,2,2]->[8,4,4]:", run([8, 2, 2], [8, 4, 4]))
