"""Demonstration for D2 (C14): a sharded dataset written locally must be readable
through ShardedHttpAccessor.  Run with /venv/bin/python; needs requests_mock."""
import json, os, re, shutil, tempfile
import requests_mock
from neuroglancer_scripts.sharded_file_accessor import ShardedFileAccessor
from neuroglancer_scripts.sharded_http_accessor import ShardedHttpAccessor

d = tempfile.mkdtemp(prefix="ngs-demo.")
try:
    sharding = {"@type": "neuroglancer_uint64_sharded_v1", "minishard_bits": 1,
                "shard_bits": 1, "hash": "identity",
                "minishard_index_encoding": "raw", "data_encoding": "raw",
                "preshift_bits": 0}
    info = {"type": "image", "data_type": "uint8", "num_channels": 1,
            "scales": [{"key": "k", "size": [128, 128, 64], "resolution": [1, 1, 1],
                        "voxel_offset": [0, 0, 0], "encoding": "raw",
                        "chunk_sizes": [[64, 64, 64]], "sharding": sharding}]}
    w = ShardedFileAccessor(d)
    w.info = json.loads(json.dumps(info))
    w.store_file("info", json.dumps(info).encode())
    coords = [(0, 64, 0, 64, 0, 64), (64, 128, 0, 64, 0, 64),
              (0, 64, 64, 128, 0, 64), (64, 128, 64, 128, 0, 64)]
    for i, c in enumerate(coords):
        w.store_chunk(b"chunk%d" % i, "k", c)
    w.close()

    def serve(request, context):
        path = os.path.join(d, request.path_url.lstrip("/"))
        if not os.path.isfile(path):
            context.status_code = 404
            return b""
        data = open(path, "rb").read()
        rng = request.headers.get("Range")
        if rng:
            a, b = map(int, re.match(r"bytes=(\d+)-(\d+)", rng).groups())
            context.status_code = 206
            return data[a:b + 1]
        return data

    with requests_mock.Mocker() as m:
        m.register_uri(requests_mock.ANY, re.compile("http://h.test/.*"), content=serve)
        r = ShardedHttpAccessor("http://h.test/")
        for i, c in enumerate(coords):
            got = r.fetch_chunk("k", c)
            assert got == b"chunk%d" % i, (c, got)
    print("OK: all chunks fetched over HTTP equal the stored bytes")
finally:
    shutil.rmtree(d)
