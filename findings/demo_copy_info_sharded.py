"""Demonstration (C13): convert-chunks --copy-info from a sharded source must
produce a destination that can be read back."""
import json, os, shutil, subprocess, sys, tempfile
import numpy as np
d = tempfile.mkdtemp(prefix="ngs-demo.")
os.environ["TMPDIR"] = d
tempfile.tempdir = d
try:
    from neuroglancer_scripts import precomputed_io, accessor
    from neuroglancer_scripts.scripts import convert_chunks
    sharding = {"@type": "neuroglancer_uint64_sharded_v1", "minishard_bits": 1, "shard_bits": 1,
                "hash": "identity", "minishard_index_encoding": "raw", "data_encoding": "raw", "preshift_bits": 0}
    info = {"type": "image", "data_type": "uint8", "num_channels": 1, "scales": [
        {"key": "k", "size": [8, 8, 8], "resolution": [1, 1, 1], "voxel_offset": [0, 0, 0],
         "encoding": "raw", "chunk_sizes": [[4, 4, 4]], "sharding": sharding}]}
    src, dst = os.path.join(d, "src"), os.path.join(d, "dst")
    os.makedirs(src)
    open(os.path.join(src, "info"), "w").write(json.dumps(info))
    acc = accessor.get_accessor_for_url(src)
    io = precomputed_io.get_IO_for_existing_dataset(acc)
    rng = np.random.default_rng(0)
    vol = rng.integers(0, 255, size=(1, 8, 8, 8), dtype=np.uint8)
    coords = [(x, x+4, y, y+4, z, z+4) for x in (0, 4) for y in (0, 4) for z in (0, 4)]
    for c in coords:
        io.write_chunk(vol[:, c[4]:c[5], c[2]:c[3], c[0]:c[1]], "k", c)
    acc.close()
    # run the converter in a subprocess so that exit handlers run
    r = subprocess.run([sys.executable, "-c", "import sys; from neuroglancer_scripts.scripts import convert_chunks; sys.exit(convert_chunks.main(['x', '--copy-info', %r, %r]))" % (src, dst)],
                       stdout=subprocess.PIPE, stderr=subprocess.STDOUT, text=True, env=dict(os.environ, TMPDIR=d))
    print("convert-chunks --copy-info exit status:", r.returncode)
    try:
        io2 = precomputed_io.get_IO_for_existing_dataset(accessor.get_accessor_for_url(dst))
        ok = all(np.array_equal(io2.read_chunk("k", c), vol[:, c[4]:c[5], c[2]:c[3], c[0]:c[1]]) for c in coords)
        print("PASS: destination reads back equal" if ok else "FAIL: destination differs")
    except Exception as e:
        print("FAIL: destination cannot be read:", type(e).__name__, str(e)[:100])
finally:
    shutil.rmtree(d)
