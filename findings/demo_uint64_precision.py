"""Demonstration for K2 (C11, C07): conversions to uint64 go through float64."""
import numpy as np
from neuroglancer_scripts.data_types import get_chunk_dtype_transformer
from neuroglancer_scripts.downscaling import AveragingDownscaler
import warnings; warnings.simplefilter("ignore")
t = get_chunk_dtype_transformer("float64", "uint64", warn=False)
print("float64 2e19 -> uint64:", t(np.array([2e19]))[0], "(expected 18446744073709551615)")
t = get_chunk_dtype_transformer("int64", "uint64", warn=False)
print("int64 2**53+1 -> uint64:", t(np.array([2**53 + 1], dtype="int64"))[0], "(expected %d)" % (2**53 + 1))
a = np.full((1, 2, 2, 2), 2**53 + 1, dtype="uint64")
print("mean of eight (2**53+1) as uint64:", AveragingDownscaler().downscale(a, (2, 2, 2)).ravel()[0], "(expected %d)" % (2**53 + 1))
