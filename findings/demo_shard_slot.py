"""Demonstration for D3w (C04): the shard index entry of minishard m is not at
slot m when a lower-numbered minishard of the shard is unused."""
import json, shutil, struct, tempfile, os
from neuroglancer_scripts.sharded_file_accessor import ShardedFileAccessor
d = tempfile.mkdtemp(prefix="ngs-demo.")
try:
    info = {"scales": [{"key": "k", "size": [256, 64, 64], "chunk_sizes": [[64, 64, 64]],
            "sharding": {"@type": "neuroglancer_uint64_sharded_v1", "minishard_bits": 2, "shard_bits": 0,
                         "hash": "identity", "minishard_index_encoding": "raw", "data_encoding": "raw",
                         "preshift_bits": 0}}]}
    a = ShardedFileAccessor(d, strategy="in memory"); a.info = json.loads(json.dumps(info))
    a.store_chunk(b"chunk0", "k", (0, 64, 0, 64, 0, 64))       # id 0 -> minishard 0
    a.store_chunk(b"chunk2", "k", (128, 192, 0, 64, 0, 64))    # id 2 -> minishard 2
    a.close()
    raw = open(os.path.join(d, "k", "0.shard"), "rb").read()
    idx = struct.unpack("<8Q", raw[:64])
    for m in range(4):
        s, e = idx[2 * m], idx[2 * m + 1]
        print("slot", m, "empty" if s == e else "minishard index of %d bytes" % (e - s))
    print("a specification reader looks for chunk id 2 in slot 2")
finally:
    shutil.rmtree(d)
