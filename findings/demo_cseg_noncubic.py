"""Demonstration (C02): compressed_segmentation with a non-cubic block size."""
import numpy as np
from neuroglancer_scripts.chunk_encoding import CompressedSegmentationEncoder
rng = np.random.default_rng(1)
for bs in ([8, 8, 8], [8, 4, 2], [2, 4, 8]):
    enc = CompressedSegmentationEncoder("uint32", 1, bs)
    for name, chunk in (("many labels", rng.integers(0, 50, size=(1, 5, 9, 11), dtype=np.uint32)),
                        ("uniform", np.full((1, 5, 9, 11), 7, dtype=np.uint32))):
        try:
            out = enc.decode(bytes(enc.encode(chunk)), (11, 9, 5))
            print(bs, name, "round trip", "OK" if np.array_equal(out, chunk) else "WRONG DATA")
        except Exception as e:
            print(bs, name, type(e).__name__, str(e)[:80])
