"""Demonstration (C01): an RGB NIfTI file converted with the documented step
sequence must give channel c of voxel (x, y, z) = field c of the input voxel."""
import shutil, tempfile, os
import numpy as np, nibabel
from neuroglancer_scripts.scripts import volume_to_precomputed, generate_scales_info
from neuroglancer_scripts import precomputed_io, accessor
d = tempfile.mkdtemp(prefix="ngs-demo.")
try:
    rng = np.random.default_rng(3)
    vals = rng.integers(0, 255, size=(5, 4, 3, 3), dtype=np.uint8)
    rgb = np.zeros((5, 4, 3), dtype=[("R", "u1"), ("G", "u1"), ("B", "u1")])
    for k, n in enumerate("RGB"):
        rgb[n] = vals[..., k]
    nibabel.save(nibabel.Nifti1Image(rgb, np.eye(4)), os.path.join(d, "rgb.nii"))
    out = os.path.join(d, "out")
    assert volume_to_precomputed.main(["x", "--generate-info", os.path.join(d, "rgb.nii"), out]) == 0
    assert generate_scales_info.main(["x", os.path.join(out, "info_fullres.json"), out]) == 0
    assert volume_to_precomputed.main(["x", os.path.join(d, "rgb.nii"), out]) == 0
    io = precomputed_io.get_IO_for_existing_dataset(accessor.get_accessor_for_url(out))
    key = io.info["scales"][0]["key"]
    chunk = io.read_chunk(key, (0, 5, 0, 4, 0, 3))          # (C, Z, Y, X)
    want = np.moveaxis(vals, (0, 1, 2, 3), (3, 2, 1, 0))
    assert np.array_equal(chunk, want), "voxels differ"
    print("PASS: RGB volume converted, every voxel and channel in place")
finally:
    shutil.rmtree(d)
