"""Demonstration for X2 (C19/C01): an RGB NIfTI through the all-in-one command
versus the documented step sequence."""
import shutil, tempfile, os, traceback
import numpy as np, nibabel
from neuroglancer_scripts.scripts import volume_to_precomputed_pyramid, volume_to_precomputed, generate_scales_info
d = tempfile.mkdtemp(prefix="ngs-demo.")
try:
    rgb = np.zeros((4, 4, 4), dtype=[("R", "u1"), ("G", "u1"), ("B", "u1")])
    rgb["R"] = 10; rgb["G"] = 20; rgb["B"] = 30
    nibabel.save(nibabel.Nifti1Image(rgb, np.eye(4)), os.path.join(d, "rgb.nii"))
    for name, fn in (("all-in-one", lambda: volume_to_precomputed_pyramid.main(["x", os.path.join(d, "rgb.nii"), os.path.join(d, "a")])),
                     ("step 1 --generate-info", lambda: volume_to_precomputed.main(["x", "--generate-info", os.path.join(d, "rgb.nii"), os.path.join(d, "b")])),
                     ("step 2 generate-scales-info", lambda: generate_scales_info.main(["x", os.path.join(d, "b", "info_fullres.json"), os.path.join(d, "b")])),
                     ("step 3 volume-to-precomputed", lambda: volume_to_precomputed.main(["x", os.path.join(d, "rgb.nii"), os.path.join(d, "b")]))):
        try:
            print(name, "-> status", fn())
        except BaseException as e:
            print(name, "->", type(e).__name__, str(e)[:100])
finally:
    shutil.rmtree(d)

# after the fix: the all-in-one output equals the step-by-step output
import json
from neuroglancer_scripts import precomputed_io, accessor
d = tempfile.mkdtemp(prefix="ngs-demo.")
try:
    rng = np.random.default_rng(3)
    vals = rng.integers(0, 255, size=(5, 4, 3, 3), dtype=np.uint8)
    rgb = np.zeros((5, 4, 3), dtype=[("R", "u1"), ("G", "u1"), ("B", "u1")])
    for k, n in enumerate("RGB"):
        rgb[n] = vals[..., k]
    f = os.path.join(d, "rgb.nii")
    nibabel.save(nibabel.Nifti1Image(rgb, np.eye(4)), f)
    a, b = os.path.join(d, "a"), os.path.join(d, "b")
    assert volume_to_precomputed_pyramid.main(["x", f, a]) == 0
    assert volume_to_precomputed.main(["x", "--generate-info", f, b]) == 0
    assert generate_scales_info.main(["x", os.path.join(b, "info_fullres.json"), b]) == 0
    assert volume_to_precomputed.main(["x", f, b]) == 0
    ia = precomputed_io.get_IO_for_existing_dataset(accessor.get_accessor_for_url(a))
    ib = precomputed_io.get_IO_for_existing_dataset(accessor.get_accessor_for_url(b))
    assert ia.info == ib.info, "info differs"
    key = ia.info["scales"][0]["key"]
    assert np.array_equal(ia.read_chunk(key, (0, 5, 0, 4, 0, 3)), ib.read_chunk(key, (0, 5, 0, 4, 0, 3)))
    print("PASS: all-in-one equals step-by-step on an RGB volume")
finally:
    shutil.rmtree(d)
