"""Demonstration for D12 (C15): a slice stack whose slice axis is reversed
(orientation code ending in I, P or L) must convert and be flipped along z."""
import json, pathlib, shutil, tempfile, sys
import numpy as np, skimage.io
from neuroglancer_scripts.scripts import slices_to_precomputed
from neuroglancer_scripts import precomputed_io, accessor

d = pathlib.Path(tempfile.mkdtemp(prefix="ngs-demo."))
try:
    nx, ny, nz = 4, 3, 5
    vol = np.arange(nz * ny * nx, dtype=np.uint8).reshape(nz, ny, nx)  # slice,row,col
    (d / "slices").mkdir()
    for k in range(nz):
        skimage.io.imsave(str(d / "slices" / f"s{k:03d}.png"), vol[k], check_contrast=False)
    info = {"type": "image", "data_type": "uint8", "num_channels": 1, "scales": [
        {"key": "k", "size": [nx, ny, nz], "resolution": [1, 1, 1], "voxel_offset": [0, 0, 0],
         "encoding": "raw", "chunk_sizes": [[2, 2, 2]]}]}
    (d / "out").mkdir()
    (d / "out" / "info").write_text(json.dumps(info))
    code = sys.argv[1] if len(sys.argv) > 1 else "RAI"
    slices_to_precomputed.convert_slices_in_directory([d / "slices"], str(d / "out"), code)
    io = precomputed_io.get_IO_for_existing_dataset(accessor.get_accessor_for_url(str(d / "out")))
    out = np.zeros((nz, ny, nx), np.uint8)
    for x in range(0, nx, 2):
        for y in range(0, ny, 2):
            for z in range(0, nz, 2):
                c = (x, min(x+2, nx), y, min(y+2, ny), z, min(z+2, nz))
                out[c[4]:c[5], c[2]:c[3], c[0]:c[1]] = io.read_chunk("k", c)[0]
    assert np.array_equal(out, vol[::-1]), "volume is not the z-flipped stack"
    print("OK:", code, "converted and flipped along z")
finally:
    shutil.rmtree(d)
