"""Demonstration for K4 (C12): store_file without permission to overwrite does
not refuse when the *other* spelling of the name (<name> vs <name>.gz) exists."""
import shutil, tempfile
from neuroglancer_scripts.file_accessor import FileAccessor
d = tempfile.mkdtemp(prefix="ngs-demo.")
try:
    a = FileAccessor(d)
    a.store_file("meta", b"first", mime_type="application/json")        # -> meta
    try:
        a.store_file("meta", b"second", mime_type="application/octet-stream")  # -> meta.gz
        print("second store (no overwrite permission) succeeded")
    except Exception as e:
        print("second store refused:", type(e).__name__)
    print("fetch_file returns", a.fetch_file("meta"))
finally:
    shutil.rmtree(d)
